//! C13: sl-mpc-mate math.rs vs. the Lean model (Model/Math.lean).  Group elements are compared through the
//! discrete-log representation: the harness creates every point as k·G, the model computes with k.
use crate::{c20::{sc_from_hex, sc_hex}, driver::Driver, report::{Failure, Report}, rng::case_rng, Opts};
use elliptic_curve::{Field, NonZeroScalar};
use k256::{ProjectivePoint, Scalar, Secp256k1};
use rand::{Rng, RngCore};
use serde_json::json;
use sl_mpc_mate::math::{birkhoff_coeffs, factorial_range, feldman_verify, polynomial_coeff_multipliers, GroupPolynomial, Polynomial};
use std::panic::{catch_unwind, AssertUnwindSafe};

fn list(v: &[Scalar]) -> String { if v.is_empty() { "-".into() } else { v.iter().map(sc_hex).collect::<Vec<_>>().join(",") } }
fn g(k: &Scalar) -> ProjectivePoint { ProjectivePoint::GENERATOR * k }
fn parse_list(s: &str) -> Option<Vec<Scalar>> { if s == "-" { Some(vec![]) } else { s.split(',').map(sc_from_hex).collect() } }
/// model answers group values as dlogs: compare with points
fn points_match(model: &str, pts: &[ProjectivePoint]) -> bool { match parse_list(model) { Some(d) => d.len() == pts.len() && d.iter().zip(pts).all(|(k, p)| g(k) == *p), None => false } }

struct Cx<'a> { drv: &'a mut Driver, rep: &'a mut Report }
impl<'a> Cx<'a> {
    fn scalar_case(&mut self, stream: &str, req: String, got: String, spec_req: Option<String>, key: &str, what: &str) {
        let idx = self.rep.case(stream, Some(&req));
        let model = self.drv.ask(&req);
        if idx < 1 { self.rep.sample(json!({"stream": stream, "request": req, "impl": got, "model": model})); }
        if let Some(sr) = spec_req { let spec = self.drv.ask(&sr); if spec != got {
            self.rep.pred_fail(Failure { stream: stream.into(), index: idx, request: vec![req.clone(), sr], impl_out: got.clone(), model_out: spec, key: key.into(), what: what.into() }); } }
        if got != model { self.rep.diverge(Failure { stream: stream.into(), index: idx, request: vec![req], impl_out: got, model_out: model, key: format!("{key}:model"), what: format!("Lean model and math.rs disagree ({stream})") }); }
    }
}

fn rnd_scalar(rng: &mut impl RngCore, k: u64) -> Scalar { match k % 5 { 0 => Scalar::ZERO, 1 => Scalar::ONE, 2 => -Scalar::ONE, 3 => Scalar::from(rng.next_u32() as u64 % 50), _ => Scalar::random(rng) } }

fn poly_case(cx: &mut Cx, rng: &mut impl RngCore, deg: usize, k: u64) {
    let coeffs: Vec<Scalar> = (0..=deg).map(|i| if i == deg { Scalar::random(&mut *rng) } else { rnd_scalar(rng, k + i as u64 * 3 + 4) }).collect();
    let x = rnd_scalar(rng, k + 4);
    let poly = Polynomial::<ProjectivePoint>::new(coeffs.clone());
    let cs = list(&coeffs);
    cx.rep.hist(&format!("degree{}", if deg < 20 { "<20" } else { ">=20" }));
    // evaluation
    cx.scalar_case("evaluate_at", format!("math eval {cs} {}", sc_hex(&x)), sc_hex(&poly.evaluate_at(&x)), Some(format!("math specderiv {cs} 0 {}", sc_hex(&x))), "math:eval", "evaluate_at differs from Horner evaluation");
    // every derivative order 0..=len
    let orders: Vec<usize> = if deg <= 6 { (0..=deg + 1).collect() } else { vec![0, 1, 2, deg / 2, deg - 1, deg, deg + 1] };
    for n in orders {
        cx.scalar_case("derivative_at", format!("math deriv {cs} {n} {}", sc_hex(&x)), sc_hex(&poly.derivative_at(n, &x)), Some(format!("math specderiv {cs} {n} {}", sc_hex(&x))), "math:derivative", "derivative_at differs from the n-th formal derivative");
        // group side commutes with commitment
        let gp = poly.commit();
        let req = format!("math gderiv {cs} {n}");
        let got: Result<Vec<ProjectivePoint>, _> = catch_unwind(AssertUnwindSafe(|| gp.derivative_coeffs(n).collect::<Vec<_>>()));
        let idx = cx.rep.case("group-derivative", Some(&req));
        let model = cx.drv.ask(&req);
        match &got {
            Err(_) => { if model != "panic" { cx.rep.diverge(Failure { stream: "group-derivative".into(), index: idx, request: vec![req.clone()], impl_out: "panic".into(), model_out: model.clone(), key: "math:gderiv:model".into(), what: "derivative_coeffs panics where the model does not".into() }); } }
            Ok(pts) => {
                if !points_match(&model, pts) { cx.rep.diverge(Failure { stream: "group-derivative".into(), index: idx, request: vec![req.clone()], impl_out: format!("{} points", pts.len()), model_out: model.clone(), key: "math:gderiv:model".into(), what: "derivative_coeffs differs from the model (dlog representation)".into() }); }
                // predicate: evaluating the derived group polynomial at x = derivative_at(n, x)·G
                let ev = GroupPolynomial::<ProjectivePoint>::new(pts.clone()).evaluate_at(&x);
                if ev != g(&poly.derivative_at(n, &x)) {
                    cx.rep.pred_fail(Failure { stream: "group-derivative".into(), index: idx, request: vec![req.clone()], impl_out: "group derivative evaluated at x".into(), model_out: "derivative_at(n,x)·G".into(), key: "math:commit-derivative".into(), what: "group-side derivative does not commute with commitment".into() });
                }
            }
        }
    }
    let gp = poly.commit();
    let req = format!("math geval {cs} {}", sc_hex(&x));
    let idx = cx.rep.case("group-evaluate", Some(&req));
    let model = cx.drv.ask(&req);
    let ev = gp.evaluate_at(&x);
    if !points_match(&model, &[ev]) { cx.rep.diverge(Failure { stream: "group-evaluate".into(), index: idx, request: vec![req.clone()], impl_out: "point".into(), model_out: model, key: "math:geval:model".into(), what: "group evaluate_at differs from the model".into() }); }
    if ev != g(&poly.evaluate_at(&x)) { cx.rep.pred_fail(Failure { stream: "group-evaluate".into(), index: idx, request: vec![req], impl_out: "commit(f)(x)".into(), model_out: "f(x)·G".into(), key: "math:commit-evaluate".into(), what: "group-side evaluation does not commute with commitment".into() }); }
    // Feldman: right share, wrong shares (off by one, zero, negated), other generator
    if let Some(xnz) = Option::<NonZeroScalar<Secp256k1>>::from(NonZeroScalar::<Secp256k1>::new(x)) {
        let fx = poly.evaluate_at(&x);
        let gamma = if k % 3 == 0 { Scalar::ONE } else { Scalar::random(&mut *rng) };
        // commitment w.r.t. generator gamma·G (dlogs = coeff·gamma)
        let pts: Vec<ProjectivePoint> = coeffs.iter().map(|c| g(&(c * &gamma))).collect();
        let dl: Vec<Scalar> = coeffs.iter().map(|c| c * &gamma).collect();
        for (name, share) in [("right", fx), ("plus-one", fx + Scalar::ONE), ("zero", Scalar::ZERO), ("negated", -fx), ("random", Scalar::random(&mut *rng))] {
            let got = feldman_verify::<Secp256k1>(pts.iter().cloned(), &xnz, &share, &g(&gamma));
            let req = format!("math feldman {} {} {} {}", list(&dl), sc_hex(&x), sc_hex(&share), sc_hex(&gamma));
            let idx = cx.rep.case("feldman", Some(&req));
            cx.rep.hist(&format!("feldman:{name}"));
            let model = cx.drv.ask(&req);
            let want = !bool::from(share.is_zero()) && share == fx;
            if got != want { cx.rep.pred_fail(Failure { stream: "feldman".into(), index: idx, request: vec![req.clone()], impl_out: got.to_string(), model_out: want.to_string(), key: format!("math:feldman:{name}"), what: "Feldman check does not accept exactly the non-zero share equal to f(x)".into() }); }
            if (model == "1") != got { cx.rep.diverge(Failure { stream: "feldman".into(), index: idx, request: vec![req], impl_out: got.to_string(), model_out: model, key: "math:feldman:model".into(), what: "feldman_verify differs from the model".into() }); }
        }
    }
}

fn birkhoff_case(cx: &mut Cx, rng: &mut impl RngCore, n: usize, lagrange: bool, singular: bool) {
    // admissible (x_i, r_i): points grouped, each group using ranks 0..multiplicity-1 (Hermite pattern) => non-singular
    let mut params: Vec<(Scalar, usize)> = vec![];
    while params.len() < n {
        let x = if rng.gen_bool(0.5) { Scalar::from(params.len() as u64 + 1) } else { Scalar::random(&mut *rng) };
        if bool::from(x.is_zero()) || params.iter().any(|(y, _)| *y == x) { continue; }
        let mult = if lagrange { 1 } else { rng.gen_range(1..=3.min(n - params.len())) };
        for r in 0..mult { params.push((x, r)); }
    }
    // any order of the pairs is admissible: rank >= 1 rows first force row exchanges in the elimination
    if rng.gen_bool(0.7) { use rand::seq::SliceRandom; params.shuffle(&mut *rng); }
    if singular && n >= 2 { params[1] = params[0]; }
    // also a non-Hermite but usually admissible pattern: rank gaps
    if !lagrange && !singular && n >= 3 && rng.gen_bool(0.3) { let x = params[n - 1].0; params[n - 1] = (x + Scalar::ONE, 1); }
    let stream = if singular { "birkhoff-singular" } else if lagrange { "lagrange" } else { "birkhoff" };
    birkhoff_run(cx, rng, params, stream, lagrange);
}

/// every ORDER of every Hermite pattern on n pairs (multiplicities = a composition of n, ranks 0..mult-1 per point, all
/// distinct arrangements): the pivot search of the elimination meets every pattern of leading zeros, at every distance
fn birkhoff_orders(cx: &mut Cx, rng: &mut impl RngCore, n: usize, stride: usize) -> usize {
    fn parts(n: usize, max: usize, cur: &mut Vec<usize>, out: &mut Vec<Vec<usize>>) {
        if n == 0 { out.push(cur.clone()); return; }
        for k in (1..=n.min(max)).rev() { cur.push(k); parts(n - k, k, cur, out); cur.pop(); }
    }
    fn perms(items: &mut Vec<(u64, usize)>, k: usize, out: &mut Vec<Vec<(u64, usize)>>) {
        if k == items.len() { out.push(items.clone()); return; }
        for i in k..items.len() { items.swap(k, i); perms(items, k + 1, out); items.swap(k, i); }
    }
    let mut ps = vec![]; parts(n, n, &mut vec![], &mut ps);
    let mut count = 0;
    for part in ps {
        let mut items: Vec<(u64, usize)> = vec![];
        for (pi, m) in part.iter().enumerate() { for r in 0..*m { items.push((pi as u64, r)); } }
        let mut all = vec![]; perms(&mut items, 0, &mut all);
        for (ai, arrangement) in all.into_iter().enumerate() {
            if ai % stride != 0 { continue; }
            // fresh points per arrangement: small ones and random ones
            let xs: Vec<Scalar> = (0..part.len()).map(|i| if count % 2 == 0 { Scalar::from(i as u64 + 1) } else { Scalar::random(&mut *rng) }).collect();
            let params: Vec<(Scalar, usize)> = arrangement.iter().map(|(pi, r)| (xs[*pi as usize], *r)).collect();
            birkhoff_run(cx, rng, params, "birkhoff-orders", part.iter().all(|m| *m == 1));
            count += 1;
        }
    }
    count
}

/// EVERY rank vector in {0..n-1}^n on n DISTINCT points (not only Hermite patterns): most are admissible (e.g. ranks [1, 0] on two
/// points), some are singular (both sides must then fail alike) — fast paths for particular n or rank patterns show here
fn birkhoff_all_ranks(cx: &mut Cx, rng: &mut impl RngCore, n: usize) -> usize {
    let total = n.pow(n as u32);
    for code in 0..total {
        let mut c = code; let mut ranks = vec![0usize; n];
        for r in ranks.iter_mut() { *r = c % n; c /= n; }
        let xs: Vec<Scalar> = (0..n).map(|i| if code % 2 == 0 { Scalar::from(i as u64 + 1) } else { loop { let x = Scalar::random(&mut *rng); if !bool::from(x.is_zero()) { break x; } } }).collect();
        let params: Vec<(Scalar, usize)> = xs.into_iter().zip(ranks).collect();
        birkhoff_run(cx, rng, params, "birkhoff-all-ranks", false);
    }
    total
}

fn birkhoff_run(cx: &mut Cx, rng: &mut impl RngCore, params: Vec<(Scalar, usize)>, stream: &str, lagrange: bool) {
    let n = params.len();
    let pairs = params.iter().map(|(x, r)| format!("{}:{r}", sc_hex(x))).collect::<Vec<_>>().join(",");
    let nz: Vec<(NonZeroScalar<Secp256k1>, usize)> = params.iter().map(|(x, r)| (NonZeroScalar::<Secp256k1>::new(*x).unwrap(), *r)).collect();
    let got = catch_unwind(AssertUnwindSafe(|| birkhoff_coeffs::<Secp256k1>(&nz)));
    let req = format!("math birkhoff {pairs}");
    let idx = cx.rep.case(stream, Some(&req));
    cx.rep.hist(&format!("{stream}:n={n}"));
    let model = cx.drv.ask(&req);
    let got_s = match &got { Ok(b) => format!("ok:{}", list(b)), Err(_) => "panic".into() };
    if idx < 1 { cx.rep.sample(json!({"stream": stream, "request": req, "impl": got_s, "model": model})); }
    if got_s != model { cx.rep.diverge(Failure { stream: stream.into(), index: idx, request: vec![req.clone()], impl_out: got_s.clone(), model_out: model.clone(), key: "math:birkhoff:model".into(), what: "birkhoff_coeffs differs from the model".into() }); }
    // Hermite patterns (every point with ranks 0..multiplicity-1) and all-zero ranks are admissible BY CONSTRUCTION: a panic there is a failure
    if got.is_err() && (stream == "birkhoff-orders" || stream == "lagrange") {
        cx.rep.pred_fail(Failure { stream: stream.into(), index: idx, request: vec![req.clone()], impl_out: "panic".into(), model_out: "coefficients".into(), key: "math:birkhoff-panic-on-admissible-set".into(), what: "birkhoff_coeffs panics on an admissible (Hermite) parameter set".into() });
    }
    if let Ok(b) = &got {
        // predicate 1: the interpolation identity for a random polynomial of degree < n, independent derivative (driver birkcheck)
        let f: Vec<Scalar> = (0..n).map(|_| Scalar::random(&mut *rng)).collect();
        let chk = cx.drv.ask(&format!("math birkcheck {pairs} {} {}", list(b), list(&f)));
        if chk != "1" { cx.rep.pred_fail(Failure { stream: stream.into(), index: idx, request: vec![req.clone(), format!("math birkcheck {pairs} {} {}", list(b), list(&f))], impl_out: got_s.clone(), model_out: "sum_i b_i f^(r_i)(x_i) = f(0)".into(), key: "math:birkhoff-identity".into(), what: "interpolation coefficients do not reproduce f(0)".into() }); }
        // predicate 2: the same identity in the exponent
        let gp = Polynomial::<ProjectivePoint>::new(f.clone()).commit();
        let mut acc = ProjectivePoint::IDENTITY;
        for (bi, (x, r)) in b.iter().zip(params.iter()) { acc += GroupPolynomial::<ProjectivePoint>::new(gp.derivative_coeffs(*r).collect()).evaluate_at(x) * bi; }
        if acc != g(&f[0]) { cx.rep.pred_fail(Failure { stream: stream.into(), index: idx, request: vec![req.clone()], impl_out: "sum_i b_i·F^(r_i)(x_i)".into(), model_out: "f(0)·G".into(), key: "math:birkhoff-exponent".into(), what: "interpolation in the exponent does not give the committed constant".into() }); }
        // predicate 3: Lagrange coefficients when all orders are zero
        if lagrange { for (i, bi) in b.iter().enumerate() {
            let mut v = Scalar::ONE; for (j, (xj, _)) in params.iter().enumerate() { if j != i { v *= xj * &(xj - &params[i].0).invert().unwrap(); } }
            if v != *bi { cx.rep.pred_fail(Failure { stream: stream.into(), index: idx, request: vec![req.clone()], impl_out: sc_hex(bi), model_out: sc_hex(&v), key: "math:lagrange".into(), what: "coefficients differ from the Lagrange coefficients although all orders are zero".into() }); break; }
        } }
    }
}

pub fn replay(drv: &mut Driver, rep: &mut Report, lines: &[String]) {
    let mut cx = Cx { drv, rep };
    for l in lines {
        let t: Vec<&str> = l.split(' ').collect();
        if t.len() < 3 || t[0] != "math" { continue; }
        match t[1] {
            "factrange" => { let (s, e): (usize, usize) = (t[2].parse().unwrap_or(0), t[3].parse().unwrap_or(0)); let got = match catch_unwind(|| factorial_range::<Scalar>(s, e)) { Ok(v) => sc_hex(&v), Err(_) => "panic".into() }; cx.scalar_case("replay", l.clone(), got, None, "math:factrange", ""); }
            "deriv" => if let (Some(cs), Some(x)) = (parse_list(t[2]), sc_from_hex(t[4])) { let n: usize = t[3].parse().unwrap_or(0); cx.scalar_case("replay", l.clone(), sc_hex(&Polynomial::<ProjectivePoint>::new(cs).derivative_at(n, &x)), Some(format!("math specderiv {} {n} {}", t[2], t[4])), "math:derivative", "derivative_at differs from the n-th formal derivative"); },
            "eval" => if let (Some(cs), Some(x)) = (parse_list(t[2]), sc_from_hex(t[3])) { cx.scalar_case("replay", l.clone(), sc_hex(&Polynomial::<ProjectivePoint>::new(cs).evaluate_at(&x)), Some(format!("math specderiv {} 0 {}", t[2], t[3])), "math:eval", "evaluate_at differs from Horner evaluation"); },
            "birkhoff" => { let nz: Option<Vec<(NonZeroScalar<Secp256k1>, usize)>> = t[2].split(',').map(|p| { let (x, r) = p.split_once(':')?; Some((Option::from(NonZeroScalar::<Secp256k1>::new(sc_from_hex(x)?))?, r.parse().ok()?)) }).collect();
                if let Some(nz) = nz { let got = match catch_unwind(AssertUnwindSafe(|| birkhoff_coeffs::<Secp256k1>(&nz))) { Ok(b) => format!("ok:{}", list(&b)), Err(_) => "panic".into() }; cx.scalar_case("replay", l.clone(), got, None, "math:birkhoff", ""); } }
            _ => {}
        }
    }
}

pub fn run(o: &Opts, drv: &mut Driver, rep: &mut Report) {
    let thorough = o.tier == "thorough";
    let mut rng = case_rng(o.seed, "c13");
    let mut cx = Cx { drv, rep };
    // factorial_range: every 0 <= s <= e <= 30 (both branches and the table boundary), exhaustive
    for e in 0..=30usize { for s in 0..=e {
        let got = match catch_unwind(|| factorial_range::<Scalar>(s, e)) { Ok(v) => sc_hex(&v), Err(_) => "panic".into() };
        let mut want = Scalar::ONE; for x in s + 1..=e { want *= Scalar::from(x as u64); }
        let req = format!("math factrange {s} {e}");
        let idx = cx.rep.case("factorial_range", Some(&req));
        let model = cx.drv.ask(&req);
        if got != sc_hex(&want) { cx.rep.pred_fail(Failure { stream: "factorial_range".into(), index: idx, request: vec![req.clone()], impl_out: got.clone(), model_out: sc_hex(&want), key: format!("math:factorial_range:{}", if e < 21 { "table" } else { "product" }), what: "factorial_range(s,e) differs from (s+1)·…·e".into() }); }
        if got != model { cx.rep.diverge(Failure { stream: "factorial_range".into(), index: idx, request: vec![req], impl_out: got, model_out: model, key: "math:factrange:model".into(), what: "factorial_range differs from the model".into() }); }
    } }
    cx.rep.exhaustive.push("factorial_range(s,e) for all 0 <= s <= e <= 30".into());
    // coefficient multipliers
    for k in 0..(if thorough { 300 } else { 30 }) {
        let x = Scalar::random(&mut rng); let n = rng.gen_range(1..26); let ni = rng.gen_range(0..=n.min(25));
        let xnz = NonZeroScalar::<Secp256k1>::new(x).unwrap();
        cx.scalar_case("coeff_multipliers", format!("math mult {} {ni} {n}", sc_hex(&x)), list(&polynomial_coeff_multipliers::<Secp256k1>(&xnz, ni, n)), None, "math:mult", "");
        let _ = k;
    }
    // polynomials of every degree 0..=24
    let reps = (if thorough { 12 } else { 1 }) * o.scale;
    for r in 0..reps { for deg in 0..=24usize { poly_case(&mut cx, &mut rng, deg, r * 25 + deg as u64); } }
    // Birkhoff: every arrangement of every Hermite pattern up to 4 (quick) / 6 (thorough) pairs
    let omax = if thorough { 5 } else { 4 };
    let mut total = 0; for n in 1..=omax { total += birkhoff_orders(&mut cx, &mut rng, n, 1); }
    if thorough { let k = birkhoff_orders(&mut cx, &mut rng, 6, 11); cx.rep.hist(&format!("birkhoff-orders:n=6 every 11th arrangement ({k})")); }
    cx.rep.exhaustive.push(format!("birkhoff_coeffs on every arrangement of every Hermite rank pattern with n <= {omax} pairs ({total} arrangements)"));
    { let mut t = 0; for n in 1..=(if thorough { 4 } else { 3 }) { t += birkhoff_all_ranks(&mut cx, &mut rng, n); }
      cx.rep.exhaustive.push(format!("birkhoff_coeffs on every rank vector in {{0..n-1}}^n over n distinct points, n <= {} ({t} sets)", if thorough { 4 } else { 3 })); }
    // Birkhoff / Lagrange
    let nmax = if thorough { 10 } else { 7 };
    let reps = (if thorough { 30 } else { 3 }) * o.scale;
    for _ in 0..reps { for n in 1..=nmax {
        birkhoff_case(&mut cx, &mut rng, n, false, false);
        birkhoff_case(&mut cx, &mut rng, n, true, false);
        if n >= 2 && n <= 5 { birkhoff_case(&mut cx, &mut rng, n, false, true); }
    } }
}
