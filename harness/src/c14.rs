//! C14: DLogProof::{prove, verify} vs. the Lean model (Model/Dlog.lean) through the oracle.
use crate::{c20::sc_hex, driver::Driver, oracle, report::{Failure, Report}, rng::{case_rng, TapeRng}, Opts};
use elliptic_curve::{group::GroupEncoding, Field};
use k256::{ProjectivePoint, Scalar};
use merlin::Transcript;
use rand::{Rng, RngCore};
use serde_json::json;
use sl_oblivious::{utils::TranscriptProtocol, zkproofs::DLogProof};

#[derive(Clone)]
struct Ctx { sid: Vec<u8>, party: usize, action: Vec<u8>, label: &'static [u8] }
fn ctx_str(c: &Ctx) -> String { format!("{} {} {} {}", hexw(&c.sid), c.party, hexw(&c.action), hexw(c.label)) }
fn hexw(b: &[u8]) -> String { if b.is_empty() { "-".into() } else { hex::encode(b) } }
fn transcript(c: &Ctx) -> Transcript { Transcript::new_dlog_proof(&c.sid, c.party, &c.action, c.label) }
fn pt(p: &ProjectivePoint) -> String { hex::encode(p.to_bytes()) }
const LABELS: [&[u8]; 3] = [b"test-dlog-proof", b"", b"another-label"];

struct Case { x: Scalar, base: ProjectivePoint, ctx: Ctx, tape: Vec<u8> }

fn verify_both(drv: &mut Driver, t: &ProjectivePoint, s: &Scalar, y: &ProjectivePoint, base: &ProjectivePoint, ctx: &Ctx) -> (bool, String, String) {
    let proof = DLogProof { t: t.to_affine(), s: *s };
    let got: bool = proof.verify(y, base, &mut transcript(ctx)).into();
    let req = format!("dlog verify {} {} {} {} {}", pt(t), sc_hex(s), pt(y), pt(base), ctx_str(ctx));
    let model = drv.ask_with(&req, &mut |q| oracle::answer(q));
    (got, model, req)
}

fn one(drv: &mut Driver, rep: &mut Report, rng: &mut impl RngCore, stream: &str, c: &Case) {
    // ---- honest proof: implementation vs model, and completeness
    let mut tape = TapeRng::new(c.tape.clone());
    let proof = DLogProof::prove(&c.x, &c.base, &mut transcript(&c.ctx), &mut tape);
    let y = c.base * c.x;
    let t = ProjectivePoint::from(proof.t);
    let req = format!("dlog prove {} {} {} {}", sc_hex(&c.x), pt(&c.base), ctx_str(&c.ctx), hex::encode(&c.tape));
    let xz = bool::from(c.x.is_zero());
    let idx = rep.case(stream, if !xz { Some(&req) } else { None });
    let got = format!("{}:{}:{}:{}", pt(&t), sc_hex(&proof.s).trim_start_matches('0'), pt(&y), tape.used);
    let model = drv.ask_with(&req, &mut |q| oracle::answer(q));
    let norm = |s: &str| { let f: Vec<&str> = s.split(':').collect(); if f.len() == 4 { format!("{}:{}:{}:{}", f[0], f[1].trim_start_matches('0'), f[2], f[3]) } else { s.to_string() } };
    if idx < 2 { rep.sample(json!({"stream": stream, "request": req, "impl": got, "model": model})); }
    if norm(&got) != norm(&model) {
        rep.diverge(Failure { stream: stream.into(), index: idx, request: vec![req.clone()], impl_out: got, model_out: model, key: "dlog:prove-model".into(), what: "Lean model Dlog.prove and DLogProof::prove disagree".into() });
    }
    let (ok, mv, vreq) = verify_both(drv, &t, &proof.s, &y, &c.base, &c.ctx);
    rep.hist(if xz { "x=0" } else { "x!=0" });
    if !ok {
        rep.pred_fail(Failure { stream: stream.into(), index: idx, request: vec![req.clone(), vreq.clone()], impl_out: "rejected".into(), model_out: "honest proof accepted".into(), key: "dlog:complete".into(), what: "an honest discrete-log proof is rejected".into() });
    }
    if (mv == "1") != ok {
        rep.diverge(Failure { stream: stream.into(), index: idx, request: vec![vreq], impl_out: ok.to_string(), model_out: mv, key: "dlog:verify-model".into(), what: "Lean model Dlog.verify and DLogProof::verify disagree (honest proof)".into() });
    }
    if xz { return; }
    // ---- mutations: every one must be rejected (x != 0)
    let g = ProjectivePoint::GENERATOR;
    let mut muts: Vec<(&str, ProjectivePoint, Scalar, ProjectivePoint, ProjectivePoint, Ctx)> = vec![];
    let base = c.base; let s = proof.s;
    muts.push(("y+G", t, s, y + g, base, c.ctx.clone()));
    muts.push(("y=-y", t, s, -y, base, c.ctx.clone()));
    muts.push(("y=identity", t, s, ProjectivePoint::IDENTITY, base, c.ctx.clone()));
    muts.push(("y=random", t, s, g * Scalar::random(&mut *rng), base, c.ctx.clone()));
    muts.push(("base+G", t, s, y, base + g, c.ctx.clone()));
    muts.push(("base=random", t, s, y, g * Scalar::random(&mut *rng), c.ctx.clone()));
    muts.push(("t+G", t + g, s, y, base, c.ctx.clone()));
    muts.push(("t=-t", -t, s, y, base, c.ctx.clone()));
    muts.push(("t=identity", ProjectivePoint::IDENTITY, s, y, base, c.ctx.clone()));
    muts.push(("s+1", t, s + Scalar::ONE, y, base, c.ctx.clone()));
    muts.push(("s=-s", t, -s, y, base, c.ctx.clone()));
    muts.push(("s=0", t, Scalar::ZERO, y, base, c.ctx.clone()));
    { // single-bit flip of s (kept reduced)
        use elliptic_curve::PrimeField;
        let mut b = s.to_bytes(); let bit = rng.gen_range(0..256); b[bit / 8] ^= 1 << (bit % 8);
        if let Some(s2) = Option::<Scalar>::from(Scalar::from_repr(b)) { muts.push(("s-bitflip", t, s2, y, base, c.ctx.clone())); }
    }
    let mut c2 = c.ctx.clone(); if c2.sid.is_empty() { c2.sid.push(1) } else { let k = rng.gen_range(0..c2.sid.len() * 8); c2.sid[k / 8] ^= 1 << (k % 8); } muts.push(("ctx-sid-bitflip", t, s, y, base, c2));
    let mut c2 = c.ctx.clone(); c2.party ^= 1 << rng.gen_range(0..16); muts.push(("ctx-party", t, s, y, base, c2));
    let mut c2 = c.ctx.clone(); c2.action.push(0); muts.push(("ctx-action-extended", t, s, y, base, c2));
    let mut c2 = c.ctx.clone(); c2.label = LABELS.iter().find(|l| **l != c.ctx.label).unwrap(); muts.push(("ctx-label", t, s, y, base, c2));
    // a field takes the VALUE OF ANOTHER FIELD or becomes empty (a default substituted for an empty field, a field absorbed twice …)
    for (name, c2) in [
        ("ctx-action:=label", Ctx { action: c.ctx.label.to_vec(), ..c.ctx.clone() }),
        ("ctx-action:=empty", Ctx { action: vec![], ..c.ctx.clone() }),
        ("ctx-action:=sid", Ctx { action: c.ctx.sid.clone(), ..c.ctx.clone() }),
        ("ctx-sid:=empty", Ctx { sid: vec![], ..c.ctx.clone() }),
        ("ctx-sid:=label", Ctx { sid: c.ctx.label.to_vec(), ..c.ctx.clone() }),
        ("ctx-sid:=action", Ctx { sid: c.ctx.action.clone(), ..c.ctx.clone() }),
        ("ctx-party:=0", Ctx { party: 0, ..c.ctx.clone() }),
        ("ctx-sid<->action", Ctx { sid: c.ctx.action.clone(), action: c.ctx.sid.clone(), ..c.ctx.clone() }),
    ] { muts.push((name, t, s, y, base, c2)); }
    // context re-splittings: another (session id, party id, action) whose concatenation sid || le64(party) || action is
    // the SAME byte string — only the framing of the three fields distinguishes it from the honest context
    {
        let mut cat = c.ctx.sid.clone(); cat.extend_from_slice(&(c.ctx.party as u64).to_le_bytes()); cat.extend_from_slice(&c.ctx.action);
        for split in [0usize, c.ctx.sid.len().saturating_sub(1), c.ctx.sid.len() + 1, c.ctx.sid.len() + 8, cat.len().saturating_sub(8)] {
            if split + 8 > cat.len() || split == c.ctx.sid.len() { continue; }
            let mut p8 = [0u8; 8]; p8.copy_from_slice(&cat[split..split + 8]);
            let c2 = Ctx { sid: cat[..split].to_vec(), party: u64::from_le_bytes(p8) as usize, action: cat[split + 8..].to_vec(), label: c.ctx.label };
            muts.push(("ctx-resplit", t, s, y, base, c2));
        }
    }
    let (t0, s0, y0, b0) = (t, proof.s, y, c.base);
    for (name, t, s, y, base, ctx) in muts {
        // a "mutation" that leaves every field unchanged (e.g. -t when t is the identity) is not one
        if t == t0 && s == s0 && y == y0 && base == b0 && ctx_str(&ctx) == ctx_str(&c.ctx) { rep.hist("mut:skipped-noop"); continue; }
        let (ok, mv, vreq) = verify_both(drv, &t, &s, &y, &base, &ctx);
        let i = rep.case("mutation", Some(&vreq));
        rep.hist(&format!("mut:{name}"));
        if ok {
            rep.pred_fail(Failure { stream: "mutation".into(), index: i, request: vec![req.clone(), vreq.clone()], impl_out: "accepted".into(), model_out: "rejected".into(), key: format!("dlog:accepts:{name}"), what: format!("a proof for a non-zero secret is accepted after mutation {name}") });
        }
        if (mv == "1") != ok {
            rep.diverge(Failure { stream: "mutation".into(), index: i, request: vec![vreq], impl_out: ok.to_string(), model_out: mv, key: "dlog:verify-model".into(), what: format!("Lean model Dlog.verify and DLogProof::verify disagree (mutation {name})") });
        }
    }
}

/// TWO proofs in a row on one transcript (the prover's `&mut Transcript` is advanced by `prove`, the verifier's by `verify`):
/// both must verify when the verifier replays the sequence on one transcript of the same context, and the second proof is
/// bound to the first (it must not verify on a fresh transcript of that context)
fn sequence(drv: &mut Driver, rep: &mut Report, c: &Case, x2: &Scalar, base2: &ProjectivePoint) {
    let mut tape = TapeRng::new(c.tape.clone());
    let mut tp = transcript(&c.ctx);
    let p1 = DLogProof::prove(&c.x, &c.base, &mut tp, &mut tape);
    let p2 = DLogProof::prove(x2, base2, &mut tp, &mut tape);
    let (y1, y2) = (c.base * c.x, *base2 * *x2);
    let (t1, t2) = (ProjectivePoint::from(p1.t), ProjectivePoint::from(p2.t));
    let req = format!("dlog prove2 {} {} {} {} {} {}", sc_hex(&c.x), pt(&c.base), sc_hex(x2), pt(base2), ctx_str(&c.ctx), hex::encode(&c.tape));
    let idx = rep.case("two-proofs-one-transcript", Some(&req));
    let tz = |s: &Scalar| { let h = sc_hex(s); let t = h.trim_start_matches('0'); if t.is_empty() { "0".to_string() } else { t.to_string() } };
    let got = format!("{}:{}:{}:{}:{}:{}:{}", pt(&t1), tz(&p1.s), pt(&y1), pt(&t2), tz(&p2.s), pt(&y2), tape.used);
    let model = drv.ask_with(&req, &mut |q| oracle::answer(q));
    let norm = |s: &str| s.split(':').map(|f| { let t = f.trim_start_matches('0'); if t.is_empty() { "0" } else { t } }.to_string()).collect::<Vec<_>>().join(":");
    if norm(&got) != norm(&model) {
        rep.diverge(Failure { stream: "two-proofs-one-transcript".into(), index: idx, request: vec![req.clone()], impl_out: got, model_out: model, key: "dlog:prove2-model".into(), what: "Lean proveAdv (twice) and two DLogProof::prove calls on one transcript disagree".into() });
    }
    let mut tv = transcript(&c.ctx);
    let ok1: bool = p1.verify(&y1, &c.base, &mut tv).into();
    let ok2: bool = p2.verify(&y2, base2, &mut tv).into();
    let vreq = format!("dlog verify2 {} {} {} {} {} {} {} {} {}", pt(&t1), sc_hex(&p1.s), pt(&y1), pt(&c.base), pt(&t2), sc_hex(&p2.s), pt(&y2), pt(base2), ctx_str(&c.ctx));
    let mv = drv.ask_with(&vreq, &mut |q| oracle::answer(q));
    if !(ok1 && ok2) {
        rep.pred_fail(Failure { stream: "two-proofs-one-transcript".into(), index: idx, request: vec![req.clone(), vreq.clone()], impl_out: format!("{ok1} {ok2}"), model_out: "both accepted".into(), key: "dlog:complete:second-proof".into(),
            what: "honest proofs made in a row on one transcript are not both accepted by a verifier replaying the sequence".into() });
    }
    if mv != format!("{}{}", ok1 as u8, ok2 as u8) {
        rep.diverge(Failure { stream: "two-proofs-one-transcript".into(), index: idx, request: vec![vreq], impl_out: format!("{}{}", ok1 as u8, ok2 as u8), model_out: mv, key: "dlog:verify2-model".into(), what: "Lean verifyAdv (twice) and two DLogProof::verify calls on one transcript disagree".into() });
    }
    if !bool::from(x2.is_zero()) {
        let fresh: bool = p2.verify(&y2, base2, &mut transcript(&c.ctx)).into();
        if fresh {
            rep.pred_fail(Failure { stream: "two-proofs-one-transcript".into(), index: idx, request: vec![req], impl_out: "accepted".into(), model_out: "rejected".into(), key: "dlog:accepts:second-proof-on-fresh-transcript".into(),
                what: "the second proof of a sequence verifies on a fresh transcript of the same context: it is not bound to what the transcript absorbed before it".into() });
        }
    }
}

pub fn replay(drv: &mut Driver, rep: &mut Report, lines: &[String]) {
    for l in lines {
        let t: Vec<&str> = l.split(' ').collect();
        if t.len() == 11 && t[1] == "prove2" {
            let p = |h: &str| oracle::k_point(&hex::decode(h).unwrap_or_default());
            if let (Some(b1), Some(b2)) = (p(t[3]), p(t[5])) {
                let label = LABELS.iter().find(|x| hexw(x) == t[9]).copied().unwrap_or(b"test-dlog-proof");
                let ctx = Ctx { sid: if t[6] == "-" { vec![] } else { hex::decode(t[6]).unwrap_or_default() }, party: t[7].parse().unwrap_or(0), action: if t[8] == "-" { vec![] } else { hex::decode(t[8]).unwrap_or_default() }, label };
                let c = Case { x: oracle::scalar_from_nat_hex(t[2]), base: b1, ctx, tape: hex::decode(t[10]).unwrap_or_default() };
                sequence(drv, rep, &c, &oracle::scalar_from_nat_hex(t[4]), &b2);
            }
        }
        if t.len() == 10 && t[1] == "verify" {
            let p = |h: &str| oracle::k_point(&hex::decode(h).unwrap_or_default());
            if let (Some(tt), Some(y), Some(b)) = (p(t[2]), p(t[4]), p(t[5])) {
                let label = LABELS.iter().find(|x| hexw(x) == t[9]).copied().unwrap_or(b"test-dlog-proof");
                let ctx = Ctx { sid: if t[6] == "-" { vec![] } else { hex::decode(t[6]).unwrap_or_default() }, party: t[7].parse().unwrap_or(0), action: if t[8] == "-" { vec![] } else { hex::decode(t[8]).unwrap_or_default() }, label };
                let s = oracle::scalar_from_nat_hex(t[3]);
                let (ok, mv, vreq) = verify_both(drv, &tt, &s, &y, &b, &ctx);
                let i = rep.case("replay", Some(&vreq));
                if (mv == "1") != ok { rep.diverge(Failure { stream: "replay".into(), index: i, request: vec![vreq], impl_out: ok.to_string(), model_out: mv, key: "dlog:verify-model".into(), what: "model/implementation verdicts differ".into() }); }
                rep.notes.push(format!("replayed verify: implementation verdict = {ok}"));
            }
        }
    }
}

pub fn run(o: &Opts, drv: &mut Driver, rep: &mut Report) {
    let mut rng = case_rng(o.seed, "c14");
    let n = (if o.tier == "thorough" { 2500 } else { 24 }) * o.scale;
    for k in 0..n {
        let x = match k % 6 { 0 => Scalar::ZERO, 1 => Scalar::ONE, 2 => -Scalar::ONE, _ => Scalar::random(&mut rng) };
        let mut base = match k % 4 { 0 => ProjectivePoint::GENERATOR, _ => ProjectivePoint::GENERATOR * Scalar::random(&mut rng) };
        // statements / bases that coincide with distinguished points: y = G with B != G (B = x^-1 G), y = -G, B = -G, y = B (x = 1)
        if k % 8 == 5 { if let Some(xi) = Option::<Scalar>::from(x.invert()) { base = ProjectivePoint::GENERATOR * xi; } }
        if k % 8 == 6 { if let Some(xi) = Option::<Scalar>::from(x.invert()) { base = -(ProjectivePoint::GENERATOR * xi); } }
        if k % 16 == 7 { base = -ProjectivePoint::GENERATOR; }
        let sid: Vec<u8> = (0..[0usize, 1, 32, 32, 200][k as usize % 5]).map(|_| rng.gen()).collect();
        let ctx = Ctx { sid, party: [0usize, 1, 7, 65535, 1 << 40][rng.gen_range(0..5)], action: if rng.gen_range(0..4) == 0 { vec![] } else { (0..rng.gen_range(0..12)).map(|_| rng.gen()).collect() }, label: LABELS[rng.gen_range(0..3)] };
        let mut tape = vec![0u8; 160]; rng.fill_bytes(&mut tape);
        if k % 7 == 3 { for b in tape[..32].iter_mut() { *b = 0xff; } }          // first draw is >= q: rejection sampling retries
        if k % 11 == 5 { for b in tape[..32].iter_mut() { *b = 0; } }            // nonce r = 0
        let c = Case { x, base, ctx, tape };
        one(drv, rep, &mut rng.clone(), "honest", &c);
        let _ = rng.next_u64();
        if k % 3 == 0 {
            let x2 = if k % 9 == 0 { c.x } else { Scalar::random(&mut rng) };
            let base2 = if k % 2 == 0 { c.base } else { ProjectivePoint::GENERATOR * Scalar::random(&mut rng) };
            sequence(drv, rep, &c, &x2, &base2);
        }
    }
}
