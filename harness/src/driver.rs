//! Child process `sldriver` (the Lean model) behind the line protocol of DESIGN Appendix B.
use std::io::{BufRead, BufReader, Write};
use std::process::{Child, ChildStdin, ChildStdout, Command, Stdio};

pub struct Driver {
    child: Child,
    stdin: ChildStdin,
    stdout: BufReader<ChildStdout>,
    pub requests: u64,
    pub oracle_queries: u64,
}

impl Driver {
    pub fn spawn(path: &str) -> Driver {
        let mut child = Command::new(path)
            .stdin(Stdio::piped())
            .stdout(Stdio::piped())
            .stderr(Stdio::inherit())
            .spawn()
            .unwrap_or_else(|e| panic!("cannot spawn model driver {path}: {e}"));
        let stdin = child.stdin.take().unwrap();
        let stdout = BufReader::new(child.stdout.take().unwrap());
        Driver { child, stdin, stdout, requests: 0, oracle_queries: 0 }
    }

    /// Send one request; answer the driver's `?query` lines with `oracle`; return the `=result`.
    pub fn ask_with(&mut self, req: &str, oracle: &mut dyn FnMut(&str) -> String) -> String {
        debug_assert!(!req.contains('\n'));
        self.requests += 1;
        self.stdin.write_all(req.as_bytes()).unwrap();
        self.stdin.write_all(b"\n").unwrap();
        self.stdin.flush().unwrap();
        loop {
            let mut line = String::new();
            let n = self.stdout.read_line(&mut line).expect("driver read");
            if n == 0 {
                panic!("model driver closed its output while answering: {}", &req[..req.len().min(200)]);
            }
            let line = line.trim_end_matches(['\n', '\r']);
            if let Some(q) = line.strip_prefix('?') {
                self.oracle_queries += 1;
                let a = oracle(q);
                self.stdin.write_all(a.as_bytes()).unwrap();
                self.stdin.write_all(b"\n").unwrap();
                self.stdin.flush().unwrap();
            } else if let Some(r) = line.strip_prefix('=') {
                return r.to_string();
            } else {
                panic!("model driver protocol error: {line:?}");
            }
        }
    }

    pub fn ask(&mut self, req: &str) -> String {
        self.ask_with(req, &mut |q| panic!("unexpected oracle query {q}"))
    }
}

impl Drop for Driver {
    fn drop(&mut self) {
        let _ = self.child.kill();
        let _ = self.child.wait();
    }
}
