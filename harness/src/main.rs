//! slh: correspondence harness.  `slh <PROPERTY> --tier quick|thorough --seed N --driver <sldriver> --out <report.json>`
//! Runs the real sl-crypto code (path dependency on /repo, cfg sl_crypto_verif) and the Lean model on the
//! same generated inputs and reports (a) model/implementation divergences, (b) cases where the property's
//! conclusion predicate is false on the implementation's own output.
mod driver;
mod oracle;
mod report;
mod rng;
mod c01;
mod c03;
mod c05;
mod c06;
mod c07;
mod c09;
mod c11;
mod c12;
mod c13;
mod c14;
mod c15;
mod c17;
mod c19;
mod c20;
mod c21w;

use report::Report;

pub struct Opts {
    pub prop: String,
    pub tier: String,
    pub seed: u64,
    pub driver: String,
    pub out: String,
    pub replay: Option<String>,
    /// multiplies the number of generated cases (violation search uses 10)
    pub scale: u64,
}

fn parse() -> Opts {
    let a: Vec<String> = std::env::args().collect();
    let mut o = Opts { prop: a.get(1).cloned().unwrap_or_default(), tier: "quick".into(), seed: 1,
        driver: "/verif/lean/.lake/build/bin/sldriver".into(), out: String::new(), replay: None, scale: 1 };
    let mut i = 2;
    while i < a.len() {
        let v = a.get(i + 1).cloned().unwrap_or_default();
        match a[i].as_str() {
            "--tier" => o.tier = v, "--seed" => o.seed = v.parse().unwrap_or(1), "--driver" => o.driver = v,
            "--out" => o.out = v, "--replay" => o.replay = Some(v), "--scale" => o.scale = v.parse().unwrap_or(1),
            x => panic!("unknown option {x}"),
        }
        i += 2;
    }
    o
}

pub static LAST_PANIC: std::sync::Mutex<String> = std::sync::Mutex::new(String::new());

fn main() {
    let r = std::panic::catch_unwind(real_main);
    if r.is_err() {
        let msg = LAST_PANIC.lock().map(|g| g.clone()).unwrap_or_default();
        eprintln!("slh: a panic escaped the per-case guards: {msg}");
        // a panic that escaped the per-case guards while a case was running: attributed to that case (its request is the replay).
        // Before the first case it is a defect of the harness itself (exit 2).
        let snap = report::PROGRESS.lock().ok().and_then(|g| g.clone());
        if let (Some((_, stream, req, evals)), Some((out, prop, tier, seed))) = (snap, RUN_INFO.lock().ok().and_then(|g| g.clone())) {
            let f = serde_json::json!({"stream": stream, "index": evals, "request": [req], "impl": format!("panic: {msg}"), "model": "no panic",
                "key": format!("panic:{stream}"), "what": format!("the code under test panicked outside a guarded call while a case of stream `{stream}` was running: {msg}")});
            let j = serde_json::json!({"property": prop, "tier": tier, "seed": seed, "evaluations": evals, "distinct_nontrivial": 0, "rule": "report written after an escaped panic: the run was cut short",
                "streams": {}, "histogram": {}, "samples": [], "n_divergences": 0, "divergences": [], "n_pred_failures": 1, "pred_failures": [f], "exhaustive": [],
                "notes": ["the run ended with a panic that escaped the per-case guards; counts are those reached at that point"], "search_rounds": 0, "driver_requests": 0, "oracle_queries": 0});
            let s = serde_json::to_string_pretty(&j).unwrap();
            if out.is_empty() { println!("{s}"); } else { let _ = std::fs::write(&out, s); }
            std::process::exit(1);
        }
        std::process::exit(2);
    }
}

static RUN_INFO: std::sync::Mutex<Option<(String, String, String, u64)>> = std::sync::Mutex::new(None);

fn real_main() {
    let o = parse();
    if let Ok(mut g) = RUN_INFO.lock() { *g = Some((o.out.clone(), o.prop.clone(), o.tier.clone(), o.seed)); }
    // panics of the code under test are caught per case; keep the default hook quiet
    std::panic::set_hook(Box::new(|info| {
        // remember the last panic so that a panic of the HARNESS itself (not caught per case) can be reported
        if let Ok(mut g) = LAST_PANIC.lock() { *g = info.to_string(); }
    }));
    // watchdog: a case that does not finish (an implementation call that never returns, a held lock) becomes a failure
    {
        let (out, prop, tier, seed) = (o.out.clone(), o.prop.clone(), o.tier.clone(), o.seed);
        let limit: u64 = std::env::var("VERIF_STALL_SECS").ok().and_then(|v| v.parse().ok()).unwrap_or(if tier == "thorough" { 900 } else { 300 });
        std::thread::spawn(move || loop {
            std::thread::sleep(std::time::Duration::from_secs(5));
            let snap = report::PROGRESS.lock().ok().and_then(|g| g.clone());
            if let Some((t0, stream, req, evals)) = snap {
                if t0.elapsed().as_secs() > limit {
                    let f = serde_json::json!({"stream": stream, "index": evals, "request": [req], "impl": format!("no result after {limit} s"), "model": "the call returns",
                        "key": format!("hang:{stream}"), "what": format!("a case of stream `{stream}` did not finish within {limit} s: a call of the code under test does not return (or holds a lock every later call waits for)")});
                    let j = serde_json::json!({"property": prop, "tier": tier, "seed": seed, "evaluations": evals, "distinct_nontrivial": 0, "rule": "watchdog report: the run was cut short",
                        "streams": {}, "histogram": {}, "samples": [], "n_divergences": 0, "divergences": [], "n_pred_failures": 1, "pred_failures": [f], "exhaustive": [],
                        "notes": ["the harness was stopped by its watchdog; counts are those reached when the case stalled"], "search_rounds": 0, "driver_requests": 0, "oracle_queries": 0});
                    let s = serde_json::to_string_pretty(&j).unwrap();
                    if out.is_empty() { println!("{s}"); } else { let _ = std::fs::write(&out, s); }
                    eprintln!("slh: watchdog: case stalled for more than {limit} s");
                    std::process::exit(1);
                }
            }
        });
    }
    let mut drv = driver::Driver::spawn(&o.driver);
    let replay_lines: Option<Vec<String>> = o.replay.as_ref().map(|p| {
        let v: serde_json::Value = serde_json::from_str(&std::fs::read_to_string(p).expect("replay file")).expect("replay json");
        v["request_lines"].as_array().map(|a| a.iter().filter_map(|x| x.as_str().map(String::from)).collect()).unwrap_or_default()
    });
    let mut rep;
    match o.prop.as_str() {
        "C19" => {
            rep = Report::new("C19", &o.tier, o.seed, "operand pairs (a,b) of 16 LE bytes; non-trivial = both operands non-zero; distinct by (stream,a,b)");
            match &replay_lines { Some(l) => c19::replay(&mut drv, &mut rep, l), None => { c19::run(&o, &mut drv, &mut rep); let again = rep.first_ids.clone(); if !again.is_empty() && !matches!(o.prop.as_str(), "C09" | "C10") { rep.hist("purity-probe:first-cases-rerun-at-end"); c19::replay(&mut drv, &mut rep, &again); } } }
        }
        "C07" | "C08" => {
            rep = Report::new(&o.prop, &o.tier, o.seed, "(key p,q in one of four limb configurations, plaintexts, scalar, randomisers) per Paillier operation; every case is one model request; non-trivial = all; distinct by request text");
            let p = o.prop.clone();
            match &replay_lines { Some(l) => c07::replay(&mut drv, &mut rep, l, &p), None => { c07::run(&o, &mut drv, &mut rep, &p); let again = rep.first_ids.clone(); if !again.is_empty() && !matches!(o.prop.as_str(), "C09" | "C10") { rep.hist("purity-probe:first-cases-rerun-at-end"); c07::replay(&mut drv, &mut rep, &again, &p); } } }
        }
        "C09" | "C10" => {
            rep = Report::new(&o.prop, &o.tier, o.seed, "C09: (curve, scalar x, label, security parameter, RSA key, rng tape) per honest run = prove + verify + decrypt + wire round trip, plus serialised proofs with N slots; C10: one altered byte of a serialised proof / one context substitution / one forged proof of the Lean adversarial prover (strategy, slots, x, label, key, tape); non-trivial = every case (each runs at least 128 slots); distinct by request");
            let p = o.prop.clone();
            match &replay_lines { Some(l) => c09::replay(&o, &mut drv, &mut rep, l, &p), None => { c09::run(&o, &mut drv, &mut rep, &p); let again = rep.first_ids.clone(); if !again.is_empty() && !matches!(o.prop.as_str(), "C09" | "C10") { rep.hist("purity-probe:first-cases-rerun-at-end"); c09::replay(&o, &mut drv, &mut rep, &again, &p); } } }
        }
        "C11" => {
            rep = Report::new("C11", &o.tier, o.seed, "one call of one untrusted-input entry point (from_bytes/verify/decrypt of sl-verifiable-enc on both curves; serde of Paillier keys/ciphertexts and decrypt/add/mul/message on arbitrary values; base-OT, PPRF, OT-extension and VOLE messages as POD bytes; relay frames and histories of frames; BIP32 root key bytes, u32 paths and path strings) on bytes that are uniformly random, all-00/all-ff, truncated/extended, or a structured mutation of a valid message made by the real code; non-trivial = every case; distinct by the replayable request line");
            match &replay_lines { Some(l) => c11::replay(&o, &mut drv, &mut rep, l), None => { c11::run(&o, &mut drv, &mut rep); let again = rep.first_ids.clone(); if !again.is_empty() && !matches!(o.prop.as_str(), "C09" | "C10") { rep.hist("purity-probe:first-cases-rerun-at-end"); c11::replay(&o, &mut drv, &mut rep, &again); } } }
        }
        "C12" => {
            rep = Report::new("C12", &o.tier, o.seed, "(root key, chain code, prefix, path of u32 child numbers) per derive_xpub case, plus single derive_child_pubkey steps and Base58 strings; non-trivial = valid root and non-hardened path of 2..=255 components (stream `child`: valid parent, normal index); distinct by request");
            match &replay_lines { Some(l) => c12::replay(&mut drv, &mut rep, l), None => { c12::run(&o, &mut drv, &mut rep); let again = rep.first_ids.clone(); if !again.is_empty() && !matches!(o.prop.as_str(), "C09" | "C10") { rep.hist("purity-probe:first-cases-rerun-at-end"); c12::replay(&mut drv, &mut rep, &again); } } }
        }
        "C01" | "C02" => {
            rep = Report::new(&o.prop, &o.tier, o.seed, "C01: one honest random-vector-OLE exchange = (variant ext|ot, seed provenance synthetic|pipeline, session id, sender input a in Z_q^2, tapes of both parties); C02: the same plus one alteration of the round-two message (bit flip / overwrite / swap / rotation / splice from another session or run) or one re-derived deviation set (positions J, replacement inputs, guessed bits); non-trivial = every case (each runs the full protocol over 512 OT instances); distinct by scenario line");
            let p = o.prop.clone();
            match &replay_lines { Some(l) => c01::replay(&mut drv, &mut rep, l, &p), None => { c01::run(&o, &mut drv, &mut rep, &p); let again = rep.first_ids.clone(); if !again.is_empty() && !matches!(o.prop.as_str(), "C09" | "C10") { rep.hist("purity-probe:first-cases-rerun-at-end"); c01::replay(&mut drv, &mut rep, &again, &p); } } }
        }
        "C03" | "C04" => {
            rep = Report::new(&o.prop, &o.tier, o.seed, "C03: one honest SoftSpoken run = (session id, all-but-one seed set with its 64 punctured indices, 512 choice bits, rng tape); C04: the same plus one alteration of the first-round message (bit flip / overwrite / swap / splice) or one re-derived deviation (blocks, difference vectors, guessed indices); non-trivial = every case (each runs the full protocol on 256 seeds x 640 columns); distinct by the full request");
            let p = o.prop.clone();
            match &replay_lines { Some(l) => c03::replay(&mut drv, &mut rep, l, &p), None => { c03::run(&o, &mut drv, &mut rep, &p); let again = rep.first_ids.clone(); if !again.is_empty() && !matches!(o.prop.as_str(), "C09" | "C10") { rep.hist("purity-probe:first-cases-rerun-at-end"); c03::replay(&mut drv, &mut rep, &again, &p); } } }
        }
        "C13" => {
            rep = Report::new("C13", &o.tier, o.seed, "requests to math.rs functions: factorial_range(s,e), polynomials of degree 0..=24 with evaluation/derivative/commitment/Feldman cases, (point, order) sets for Birkhoff/Lagrange; non-trivial = all; distinct by request text");
            match &replay_lines { Some(l) => c13::replay(&mut drv, &mut rep, l), None => { c13::run(&o, &mut drv, &mut rep); let again = rep.first_ids.clone(); if !again.is_empty() && !matches!(o.prop.as_str(), "C09" | "C10") { rep.hist("purity-probe:first-cases-rerun-at-end"); c13::replay(&mut drv, &mut rep, &again); } } }
        }
        "C05" => {
            rep = Report::new("C05", &o.tier, o.seed, "scenarios (kind, session ids, tape seeds, spliced instance, encoding) of the Endemic base OT: honest exchanges, different sids, cross-session substitution of message 1/2, special point encodings; non-trivial = non-degenerate tapes; distinct by scenario line");
            match &replay_lines { Some(l) => c05::replay(&mut drv, &mut rep, l), None => { c05::run(&o, &mut drv, &mut rep); let again = rep.first_ids.clone(); if !again.is_empty() && !matches!(o.prop.as_str(), "C09" | "C10") { rep.hist("purity-probe:first-cases-rerun-at-end"); c05::replay(&mut drv, &mut rep, &again); } } }
        }
        "C06" => {
            rep = Report::new("C06", &o.tier, o.seed, "scenarios (kind, session id, base-OT seed, parameters) of the all-but-one PPRF: honest build/eval, single-bit corruptions, cross-session substitution, adversarial sender grid; distinct by scenario line");
            match &replay_lines { Some(l) => c06::replay(&mut drv, &mut rep, l), None => { c06::run(&o, &mut drv, &mut rep); let again = rep.first_ids.clone(); if !again.is_empty() && !matches!(o.prop.as_str(), "C09" | "C10") { rep.hist("purity-probe:first-cases-rerun-at-end"); c06::replay(&mut drv, &mut rep, &again); } } }
        }
        "C14" => {
            rep = Report::new("C14", &o.tier, o.seed, "(secret x, base point, transcript context, rng tape) for honest proofs, each followed by 17 single-field / single-bit mutations of (t,s), y, B and the context; non-trivial = x != 0; distinct by request");
            match &replay_lines { Some(l) => c14::replay(&mut drv, &mut rep, l), None => { c14::run(&o, &mut drv, &mut rep); let again = rep.first_ids.clone(); if !again.is_empty() && !matches!(o.prop.as_str(), "C09" | "C10") { rep.hist("purity-probe:first-cases-rerun-at-end"); c14::replay(&mut drv, &mut rep, &again); } } }
        }
        "C15" | "C16" => {
            rep = Report::new(&o.prop, &o.tier, o.seed, "histories of relay operations (ask / publish frames on 3 connections, service send, clock advance); non-trivial = at least two relay operations; distinct by the full history");
            let p = o.prop.clone();
            match &replay_lines { Some(l) => c15::replay(&mut drv, &mut rep, l, &p), None => { c15::run(&o, &mut drv, &mut rep, &p); let again = rep.first_ids.clone(); if !again.is_empty() && !matches!(o.prop.as_str(), "C09" | "C10") { rep.hist("purity-probe:first-cases-rerun-at-end"); c15::replay(&mut drv, &mut rep, &again, &p); } } }
        }
        "C17" => {
            rep = Report::new("C17", &o.tier, o.seed, "(script of underlying poll_next results, sequence of recv/wait_for/next calls with poll budgets); non-trivial = script and call sequence both of length >= 2; distinct by (script, calls)");
            match &replay_lines { Some(l) => { c17::replay(&mut drv, &mut rep, l); c21w::replay(&mut drv, &mut rep, l); }, None => { c17::run(&o, &mut drv, &mut rep); c21w::run(&o, &mut drv, &mut rep); let again = rep.first_ids.clone(); if !again.is_empty() && !matches!(o.prop.as_str(), "C09" | "C10") { rep.hist("purity-probe:first-cases-rerun-at-end"); c17::replay(&mut drv, &mut rep, &again); c21w::replay(&mut drv, &mut rep, &again); } } }
        }
        "CW" => {
            // the relay-wrapper / message-id stream on its own (it also runs as part of C17)
            rep = Report::new("CW", &o.tier, o.seed, "tags (tag, params); message ids (instance, sender, receiver, tag); scripts of send / ask / skipped feed / poll / clock operations of up to 3 parties on plain, RelayStats-wrapped and EvilMessageRelay connections with (drop rules, injections); non-trivial = scripts of at least two operations, every tag / id case; distinct by request");
            match &replay_lines { Some(l) => c21w::replay(&mut drv, &mut rep, l), None => { c21w::run(&o, &mut drv, &mut rep); let again = rep.first_ids.clone(); if !again.is_empty() { rep.hist("purity-probe:first-cases-rerun-at-end"); c21w::replay(&mut drv, &mut rep, &again); } } }
        }
        "C20" => {
            rep = Report::new("C20", &o.tier, o.seed, "square matrices over the secp256k1 scalar field given as (n, n*n entries); each case runs determinant and inverse; non-trivial = n >= 2; distinct by (stream, entries)");
            match &replay_lines { Some(l) => c20::replay(&mut drv, &mut rep, l), None => { c20::run(&o, &mut drv, &mut rep); let again = rep.first_ids.clone(); if !again.is_empty() && !matches!(o.prop.as_str(), "C09" | "C10") { rep.hist("purity-probe:first-cases-rerun-at-end"); c20::replay(&mut drv, &mut rep, &again); } } }
        }
        p => { eprintln!("unknown property {p}"); std::process::exit(2); }
    }
    rep.drain_outbuf();
    let mut j = rep.to_json();
    j["driver_requests"] = drv.requests.into();
    j["oracle_queries"] = drv.oracle_queries.into();
    let s = serde_json::to_string_pretty(&j).unwrap();
    if o.out.is_empty() { println!("{s}"); } else { std::fs::write(&o.out, s).expect("write report"); }
    std::process::exit(if rep.failed() { 1 } else { 0 });
}
