//! One PRNG for every random choice of a run (so a disagreement replays exactly), and the
//! byte-tape RNG handed to the real code so that the model can consume the same tape.
use rand_chacha::ChaCha20Rng;
use rand_core::{CryptoRng, RngCore, SeedableRng};

pub fn case_rng(seed: u64, stream: &str) -> ChaCha20Rng {
    let mut s = [0u8; 32];
    s[..8].copy_from_slice(&seed.to_le_bytes());
    let b = stream.as_bytes();
    let n = b.len().min(24);
    s[8..8 + n].copy_from_slice(&b[..n]);
    ChaCha20Rng::from_seed(s)
}

/// RNG that replays a fixed byte tape: `fill_bytes(n)` = next n bytes, `next_u32/u64` = next 4/8 bytes LE.
/// Panics (caught per case) if the tape runs out; `used` tells how much was consumed.
pub struct TapeRng {
    pub tape: Vec<u8>,
    pub used: usize,
}
impl TapeRng {
    pub fn new(tape: Vec<u8>) -> Self { TapeRng { tape, used: 0 } }
    pub fn random(rng: &mut impl RngCore, len: usize) -> Self {
        let mut t = vec![0u8; len];
        rng.fill_bytes(&mut t);
        TapeRng::new(t)
    }
}
impl RngCore for TapeRng {
    fn next_u32(&mut self) -> u32 { let mut b = [0u8; 4]; self.fill_bytes(&mut b); u32::from_le_bytes(b) }
    fn next_u64(&mut self) -> u64 { let mut b = [0u8; 8]; self.fill_bytes(&mut b); u64::from_le_bytes(b) }
    fn fill_bytes(&mut self, dest: &mut [u8]) {
        let end = self.used + dest.len();
        assert!(end <= self.tape.len(), "TapeRng exhausted");
        dest.copy_from_slice(&self.tape[self.used..end]);
        self.used = end;
    }
    fn try_fill_bytes(&mut self, dest: &mut [u8]) -> Result<(), rand_core::Error> { self.fill_bytes(dest); Ok(()) }
}
impl CryptoRng for TapeRng {}
