//! Answers the model driver's oracle queries (Model/Oracle.lean, `Query.toLine`) with the very libraries
//! sl-crypto links: merlin, k256, sha2, hmac, ripemd (rsa / curve25519 are added by the C09 stream).
use elliptic_curve::group::GroupEncoding;
use k256::{ProjectivePoint, Scalar};
use merlin::Transcript;
use std::collections::HashMap;
use std::sync::Mutex;

fn unhex(h: &str) -> Vec<u8> { if h == "-" { vec![] } else { hex::decode(h).expect("oracle: bad hex") } }
fn hexw(b: &[u8]) -> String { if b.is_empty() { "-".into() } else { hex::encode(b) } }

/// merlin wants `&'static [u8]` labels: intern them (the set of labels is small and fixed)
fn intern(b: &[u8]) -> &'static [u8] {
    static TABLE: Mutex<Option<HashMap<Vec<u8>, &'static [u8]>>> = Mutex::new(None);
    let mut g = TABLE.lock().unwrap();
    let t = g.get_or_insert_with(HashMap::new);
    if let Some(s) = t.get(b) { return s; }
    let s: &'static [u8] = Box::leak(b.to_vec().into_boxed_slice());
    t.insert(b.to_vec(), s);
    s
}

pub fn scalar_from_nat_hex(h: &str) -> Scalar {
    use elliptic_curve::PrimeField;
    let v = hex::decode(if h.len() % 2 == 1 { format!("0{h}") } else { h.to_string() }).expect("oracle: scalar hex");
    assert!(v.len() <= 32, "oracle: scalar too long");
    let mut b = [0u8; 32];
    b[32 - v.len()..].copy_from_slice(&v);
    Option::from(Scalar::from_repr(b.into())).expect("oracle: scalar not reduced")
}

pub fn k_point(b: &[u8]) -> Option<ProjectivePoint> {
    if b.len() != 33 { return None; }
    let mut repr = <ProjectivePoint as GroupEncoding>::Repr::default();
    AsMut::<[u8]>::as_mut(&mut repr).copy_from_slice(b);
    ProjectivePoint::from_bytes(&repr).into()
}
pub fn k_enc(p: &ProjectivePoint) -> Vec<u8> { p.to_bytes().to_vec() }

/// edwards25519 (curve25519-dalek, the `group` impls sl-verifiable-enc is used with): 32-byte compressed Edwards y,
/// decoded with `GroupEncoding::from_bytes` (accepts non-canonical encodings), scalars reduced mod l (big-endian hex nat)
pub fn e_point(b: &[u8]) -> Option<curve25519_dalek::EdwardsPoint> {
    let a: [u8; 32] = b.try_into().ok()?;
    <curve25519_dalek::EdwardsPoint as GroupEncoding>::from_bytes(&a).into()
}
pub fn e_enc(p: &curve25519_dalek::EdwardsPoint) -> Vec<u8> { p.compress().to_bytes().to_vec() }
pub fn e_scalar(h: &str) -> curve25519_dalek::Scalar {
    let v = hex::decode(if h.len() % 2 == 1 { format!("0{h}") } else { h.to_string() }).expect("oracle: scalar hex");
    assert!(v.len() <= 32, "oracle: scalar too long");
    let mut b = [0u8; 32];
    for (i, x) in v.iter().rev().enumerate() { b[i] = *x; }
    Option::from(curve25519_dalek::Scalar::from_canonical_bytes(b)).expect("oracle: scalar not reduced")
}

pub fn merlin_answer(init: &[u8], ops: &str) -> Vec<u8> {
    let mut t = Transcript::new(intern(init));
    let mut last = vec![];
    for op in ops.split(';').filter(|s| !s.is_empty()) {
        let f: Vec<&str> = op.split(':').collect();
        match f[0] {
            "m" => t.append_message(intern(&unhex(f[1])), &unhex(f[2])),
            "u" => t.append_u64(intern(&unhex(f[1])), f[2].parse().expect("u64")),
            "c" => { let mut buf = vec![0u8; f[2].parse().expect("len")]; t.challenge_bytes(intern(&unhex(f[1])), &mut buf); last = buf; }
            x => panic!("oracle: bad transcript op {x}"),
        }
    }
    last
}

/// extra answerers registered by streams (RSA keys etc.)
pub type Extra<'a> = &'a mut dyn FnMut(&[&str]) -> Option<Vec<u8>>;

pub fn answer_with(q: &str, extra: Extra) -> String {
    let t: Vec<&str> = q.split(' ').collect();
    let out: Vec<u8> = match t[0] {
        "merlin" => merlin_answer(&unhex(t[1]), t.get(2).copied().unwrap_or("")),
        "ecmulgen" if t[1] == "k" => k_enc(&(ProjectivePoint::GENERATOR * scalar_from_nat_hex(t[2]))),
        "ecmul" if t[1] == "k" => k_enc(&(k_point(&unhex(t[2])).expect("oracle: ecmul of an invalid point") * scalar_from_nat_hex(t[3]))),
        "ecadd" if t[1] == "k" => k_enc(&(k_point(&unhex(t[2])).expect("oracle: ecadd invalid") + k_point(&unhex(t[3])).expect("oracle: ecadd invalid"))),
        "ecneg" if t[1] == "k" => k_enc(&(-k_point(&unhex(t[2])).expect("oracle: ecneg invalid"))),
        "ecvalid" if t[1] == "k" => vec![k_point(&unhex(t[2])).is_some() as u8],
        "ecmulgen" if t[1] == "e" => e_enc(&(curve25519_dalek::constants::ED25519_BASEPOINT_POINT * e_scalar(t[2]))),
        "ecmul" if t[1] == "e" => e_enc(&(e_point(&unhex(t[2])).expect("oracle: ecmul of an invalid point") * e_scalar(t[3]))),
        "ecadd" if t[1] == "e" => e_enc(&(e_point(&unhex(t[2])).expect("oracle: ecadd invalid") + e_point(&unhex(t[3])).expect("oracle: ecadd invalid"))),
        "ecneg" if t[1] == "e" => e_enc(&(-e_point(&unhex(t[2])).expect("oracle: ecneg invalid"))),
        "ecvalid" if t[1] == "e" => vec![e_point(&unhex(t[2])).is_some() as u8],
        "sha256" => { use sha2::Digest; sha2::Sha256::digest(unhex(t[1])).to_vec() }
        "hmacsha512" => { use hmac::Mac; let mut m = hmac::Hmac::<sha2::Sha512>::new_from_slice(&unhex(t[1])).unwrap(); m.update(&unhex(t[2])); m.finalize().into_bytes().to_vec() }
        "ripemd160" => { use ripemd::Digest; ripemd::Ripemd160::digest(unhex(t[1])).to_vec() }
        _ => match extra(&t) { Some(v) => v, None => panic!("oracle: unknown query {}", &q[..q.len().min(80)]) },
    };
    hexw(&out)
}

pub fn answer(q: &str) -> String { answer_with(q, &mut |_| None) }
