//! CW: relay wrappers and message identifiers vs. the Lean model (Model/Wrappers.lean, driver namespace `wrap`).
//!   message.rs        MessageTag::{tag,tag1,tag2}, MsgId::{new,broadcast,try_from}, AskMsg::allocate
//!   coord.rs          Relay::ask, MaybeFeed::skip
//!   coord/stats.rs    RelayStats over a real MessageRelay and over a scripted mock relay
//!   coord/adversary.rs EvilMessageRelay / EvilPlay with scripted drop rules, injections and send / poll sequences
//! Every observable is compared with the model (divergence); the conclusions proved in Props/Wrappers.lean are also
//! judged directly on the implementation's own output (pred_fail, keys `wrap:…`), mostly by running the same script
//! on plain `MessageRelay` connections and comparing implementation with implementation.
use crate::{driver::Driver, oracle, report::{Failure, Report}, rng::case_rng, Opts};
use futures_util::{FutureExt, Sink, Stream, StreamExt};
use rand::Rng;
use serde_json::json;
use sl_mpc_mate::coord::adversary::{EvilMessageRelay, EvilPlay};
use sl_mpc_mate::coord::simple::verif_clock;
use sl_mpc_mate::coord::stats::{RelayStats, Stats};
use sl_mpc_mate::coord::{MaybeFeed, MessageSendError, Relay, SimpleMessageRelay};
use sl_mpc_mate::message::{allocate_message, AskMsg, InstanceId, MessageTag, MsgHdr, MsgId, MESSAGE_HEADER_SIZE};
use std::collections::{BTreeSet, HashMap, HashSet, VecDeque};
use std::panic::{catch_unwind, AssertUnwindSafe};
use std::pin::Pin;
use std::sync::{Arc, Mutex};
use std::task::{Context, Poll};

type Id = [u8; 32];

#[derive(Clone, Debug, PartialEq)]
pub enum Op { Send(usize, Vec<u8>), Ask(usize, Id, u32), Skip(usize), Poll(usize), Tick(u64) }
#[derive(Clone, Debug, PartialEq)]
pub enum Cond { Always, Never, Seen(Id), Unseen(Id), Party(usize), SeenParty(Id, usize), SeenCount(usize) }
#[derive(Clone, Debug)]
pub enum Ev { Msg(Vec<u8>), Pending, Closed }
#[derive(Clone, Debug)]
pub enum MockOp { Poll, Send(Vec<u8>) }

impl Cond {
    fn eval(&self, seen: &BTreeSet<Id>, party: usize) -> bool {
        match self { Cond::Always => true, Cond::Never => false, Cond::Seen(i) => seen.contains(i), Cond::Unseen(i) => !seen.contains(i),
            Cond::Party(k) => party == *k, Cond::SeenParty(i, k) => seen.contains(i) && party == *k, Cond::SeenCount(n) => seen.len() >= *n }
    }
}

fn hexw(b: &[u8]) -> String { if b.is_empty() { "-".into() } else { hex::encode(b) } }
fn unhex(h: &str) -> Option<Vec<u8>> { if h == "-" { Some(vec![]) } else { hex::decode(h).ok() } }
fn unhex32(h: &str) -> Option<Id> { let v = hex::decode(h).ok()?; v.as_slice().try_into().ok() }
fn dash(v: Vec<String>, sep: &str) -> String { if v.is_empty() { "-".into() } else { v.join(sep) } }
fn seen_str(s: &BTreeSet<Id>) -> String { dash(s.iter().map(hex::encode).collect(), "+") }   // BTreeSet order = sorted hex order

fn op_str(o: &Op) -> String {
    match o { Op::Send(c, f) => format!("s{c}:{}", hexw(f)), Op::Ask(c, id, ttl) => format!("a{c}:{}:{ttl}", hex::encode(id)),
        Op::Skip(c) => format!("k{c}"), Op::Poll(c) => format!("p{c}"), Op::Tick(k) => format!("t{k}") }
}
fn parse_op(s: &str) -> Option<Op> {
    let (h, r) = s.split_at(s.char_indices().nth(1).map(|x| x.0).unwrap_or(s.len()));
    match h {
        "t" => r.parse().ok().map(Op::Tick), "k" => r.parse().ok().map(Op::Skip), "p" => r.parse().ok().map(Op::Poll),
        "s" => { let (c, f) = r.split_once(':')?; Some(Op::Send(c.parse().ok()?, unhex(f)?)) }
        "a" => { let t: Vec<&str> = r.split(':').collect(); if t.len() != 3 { return None; } Some(Op::Ask(t[0].parse().ok()?, unhex32(t[1])?, t[2].parse().ok()?)) }
        _ => None,
    }
}
fn cond_str(c: &Cond) -> String {
    match c { Cond::Always => "A".into(), Cond::Never => "N".into(), Cond::Seen(i) => format!("S{}", hex::encode(i)), Cond::Unseen(i) => format!("U{}", hex::encode(i)),
        Cond::Party(k) => format!("P{k}"), Cond::SeenParty(i, k) => format!("B{}/{k}", hex::encode(i)), Cond::SeenCount(n) => format!("C{n}") }
}
fn parse_cond(s: &str) -> Option<Cond> {
    let (h, r) = s.split_at(1.min(s.len()));
    match h { "A" => Some(Cond::Always), "N" => Some(Cond::Never), "S" => unhex32(r).map(Cond::Seen), "U" => unhex32(r).map(Cond::Unseen),
        "P" => r.parse().ok().map(Cond::Party), "C" => r.parse().ok().map(Cond::SeenCount),
        "B" => { let (i, k) = r.split_once('/')?; Some(Cond::SeenParty(unhex32(i)?, k.parse().ok()?)) } _ => None }
}
fn ops_str(ops: &[Op]) -> String { dash(ops.iter().map(op_str).collect(), ",") }
fn parse_list<T>(s: &str, f: impl Fn(&str) -> Option<T>) -> Option<Vec<T>> { if s == "-" { Some(vec![]) } else { s.split(',').map(f).collect() } }
fn parse_ev(s: &str) -> Option<Ev> { match s { "p" => Some(Ev::Pending), "c" => Some(Ev::Closed), _ => unhex(s.strip_prefix("m:")?).map(Ev::Msg) } }
fn ev_str(e: &Ev) -> String { match e { Ev::Msg(m) => format!("m:{}", hexw(m)), Ev::Pending => "p".into(), Ev::Closed => "c".into() } }
fn parse_mock_op(s: &str) -> Option<MockOp> { if s == "p" { Some(MockOp::Poll) } else { unhex(s.strip_prefix("s:")?).map(MockOp::Send) } }
fn mock_op_str(o: &MockOp) -> String { match o { MockOp::Poll => "p".into(), MockOp::Send(f) => format!("s:{}", hexw(f)) } }

/// near ids (as in c15): 0/1 differ in the last byte, 2 differs from 0 in byte 15, 3 in the first byte; 4.. unrelated
fn id_of(k: u8) -> Id {
    let mut b = [0u8; 32];
    for (i, x) in b.iter_mut().enumerate() { *x = 0xA0 ^ (i as u8).wrapping_mul(7); }
    match k { 0 => {} 1 => b[31] ^= 0x01, 2 => b[15] ^= 0x80, 3 => b[0] ^= 0x01, _ => { b = [k; 32]; b[0] = 0xA0u8.wrapping_add(k); } }
    b
}
fn pub_frame(id: u8, ttl: u32, payload: u8) -> Vec<u8> { allocate_message(&MsgId::from(id_of(id)), ttl, payload as u16, &[payload]) }
fn ask_frame(id: u8, ttl: u32) -> Vec<u8> { allocate_message(&MsgId::from(id_of(id)), ttl, 0, &[]) }
fn frame_id(f: &[u8]) -> Option<Id> { if f.len() >= MESSAGE_HEADER_SIZE { f[..32].try_into().ok() } else { None } }

// ------------------------------------------------------------------------------------------------ running scripts

fn send_res(r: std::thread::Result<Result<(), MessageSendError>>) -> String { match r { Ok(Ok(())) => "ok".into(), Ok(Err(_)) => "senderr".into(), Err(_) => "panic".into() } }

/// one operation on connection objects of any `Relay` type; sends are followed by a few scheduler rounds so that the
/// relay's spawned deliveries land before the next operation
async fn do_op<T: Relay>(conns: &mut [T], op: &Op, now: &mut u64) -> String {
    let out = match op {
        Op::Tick(k) => { *now += k; verif_clock::set_secs(*now); "t".to_string() }
        Op::Send(c, f) => send_res(catch_unwind(AssertUnwindSafe(|| Pin::new(&mut conns[*c]).start_send(f.clone())))),
        Op::Ask(c, id, ttl) => match catch_unwind(AssertUnwindSafe(|| conns[*c].ask(&MsgId::from(*id), *ttl).now_or_never())) {
            Ok(Some(r)) => send_res(Ok(r)), Ok(None) => "notready".into(), Err(_) => "panic".into() },
        Op::Skip(_) => match MaybeFeed::<'_, T>::skip().now_or_never() { Some(Ok(())) => "ok".into(), Some(Err(_)) => "senderr".into(), None => "notready".into() },
        Op::Poll(c) => match conns[*c].next().now_or_never() { None => "pending".into(), Some(None) => "closed".into(), Some(Some(m)) => format!("r:{}", hexw(&m)) },
    };
    if matches!(op, Op::Send(..) | Op::Ask(..)) { for _ in 0..4 { tokio::task::yield_now().await; } }
    out
}

/// after the script: read every connection until it is pending (frames a party never asked to see while the script ran)
async fn drain<T: Relay>(conns: &mut [T]) -> Vec<Vec<Vec<u8>>> {
    let mut all = vec![];
    for c in conns.iter_mut() {
        let mut got = vec![];
        let mut quiet = 0;
        while quiet < 2 && got.len() < 1000 {
            for _ in 0..4 { tokio::task::yield_now().await; }
            match c.next().now_or_never() { Some(Some(m)) => { got.push(m); quiet = 0; } _ => quiet += 1 }
        }
        all.push(got);
    }
    all
}

fn dump_str(relay: &SimpleMessageRelay) -> String {
    match catch_unwind(AssertUnwindSafe(|| relay.verif_dump())) {
        Ok((m, h)) => {
            let mut a: Vec<String> = m.iter().map(|(id, f, n, e)| match f { Some(f) => format!("{}:R:{}", hexw(id), hexw(f)), None => format!("{}:W:{e}:{n}", hexw(id)) }).collect();
            let mut b: Vec<String> = h.iter().map(|(w, id, k)| format!("{w}:{}:{k:?}", hexw(id))).collect();
            a.sort(); b.sort();
            format!("{}|{}", a.join("+"), b.join("+"))
        }
        Err(_) => "poisoned".into(),
    }
}

struct RawRun { outs: Vec<String>, drained: Vec<Vec<Vec<u8>>>, dump: String }

fn run_raw(rt: &tokio::runtime::Runtime, n: usize, ops: &[Op]) -> RawRun {
    rt.block_on(async {
        verif_clock::set_secs(0);
        let relay = SimpleMessageRelay::new();
        let mut conns: Vec<_> = (0..n).map(|_| relay.connect()).collect();
        let mut now = 0u64; let mut outs = vec![];
        for op in ops { outs.push(do_op(&mut conns, op, &mut now).await); }
        let dump = dump_str(&relay);
        let drained = drain(&mut conns).await;
        RawRun { outs, drained, dump }
    })
}

#[derive(Clone, Debug, PartialEq)]
struct Snap { sc: usize, ss: usize, rc: usize, rs: usize, ids: Vec<Vec<u8>> }
fn snap(s: &Arc<Mutex<Stats>>) -> Snap { let g = s.lock().unwrap(); Snap { sc: g.send_count, ss: g.send_size, rc: g.recv_count, rs: g.recv_size, ids: g.wait_times.iter().map(|(i, _)| i.as_slice().to_vec()).collect() } }
impl Snap {
    fn counters(&self) -> String { format!("{}.{}.{}.{}", self.sc, self.ss, self.rc, self.rs) }
    fn full(&self) -> String { format!("{}.{}", self.counters(), dash(self.ids.iter().map(|i| hexw(i)).collect(), "+")) }
}

struct StatsRun { outs: Vec<String>, counters: Vec<Option<String>>, finals: Vec<Snap>, dump: String }

fn run_stats(rt: &tokio::runtime::Runtime, n: usize, ops: &[Op]) -> StatsRun {
    rt.block_on(async {
        verif_clock::set_secs(0);
        let relay = SimpleMessageRelay::new();
        let handles: Vec<Arc<Mutex<Stats>>> = (0..n).map(|_| Stats::alloc()).collect();
        let mut conns: Vec<_> = handles.iter().map(|h| RelayStats::new(relay.connect(), h.clone())).collect();
        let mut now = 0u64; let (mut outs, mut counters) = (vec![], vec![]);
        for op in ops {
            outs.push(do_op(&mut conns, op, &mut now).await);
            counters.push(match op { Op::Send(c, _) | Op::Ask(c, _, _) | Op::Skip(c) | Op::Poll(c) => Some(snap(&handles[*c]).counters()), Op::Tick(_) => None });
        }
        StatsRun { outs, counters, finals: handles.iter().map(snap).collect(), dump: dump_str(&relay) }
    })
}

type EvalLog = Arc<Mutex<Vec<(BTreeSet<Id>, usize)>>>;
struct EvilRun { outs: Vec<String>, evals: Vec<Vec<(BTreeSet<Id>, usize)>>, drained: Vec<Vec<Vec<u8>>>, drain_evals: Vec<(BTreeSet<Id>, usize)> }

fn build_play(drops: &[(Id, Option<usize>)], injects: &[(Vec<u8>, Cond)], log: &EvalLog) -> EvilPlay {
    let mut play = EvilPlay::new();
    for (id, p) in drops { play = play.drop_message(MsgId::from(*id), *p); }
    for (msg, cond) in injects {
        let (cond, log) = (cond.clone(), log.clone());
        play = play.inject_message(msg.clone(), move |seen: &HashSet<MsgId>, party: usize| {
            let s: BTreeSet<Id> = seen.iter().map(|m| m.as_slice().try_into().unwrap()).collect();
            let r = cond.eval(&s, party);
            log.lock().unwrap().push((s, party));
            r
        });
    }
    play
}

fn run_evil(rt: &tokio::runtime::Runtime, n: usize, drops: &[(Id, Option<usize>)], injects: &[(Vec<u8>, Cond)], ops: &[Op]) -> EvilRun {
    rt.block_on(async {
        verif_clock::set_secs(0);
        let log: EvalLog = Arc::new(Mutex::new(vec![]));
        let relay = EvilMessageRelay::new(build_play(drops, injects, &log));
        let mut conns: Vec<_> = (0..n).map(|_| relay.connect()).collect();     // party index = connection order
        let mut now = 0u64; let (mut outs, mut evals) = (vec![], vec![]);
        for op in ops {
            outs.push(do_op(&mut conns, op, &mut now).await);
            evals.push(std::mem::take(&mut *log.lock().unwrap()));
        }
        let drained = drain(&mut conns).await;
        let drain_evals = std::mem::take(&mut *log.lock().unwrap());
        EvilRun { outs, evals, drained, drain_evals }
    })
}

// ------------------------------------------------------------------------------------------------ cases

fn fail(stream: &str, idx: u64, req: &str, key: &str, what: &str, got: String, want: String) -> Failure {
    Failure { stream: stream.into(), index: idx, request: vec![req.to_string()], impl_out: got, model_out: want, key: key.into(), what: what.into() }
}

fn polled(out: &str) -> Option<Vec<u8>> { out.strip_prefix("r:").and_then(unhex) }
fn sorted(mut v: Vec<Vec<u8>>) -> Vec<Vec<u8>> { v.sort(); v }

/// plain connections: Relay::ask == feeding AskMsg::allocate, MaybeFeed::skip == nothing
fn raw_case(drv: &mut Driver, rep: &mut Report, rt: &tokio::runtime::Runtime, stream: &str, n: usize, ops: &[Op]) {
    let req = format!("wrap raw {n} {}", ops_str(ops));
    let idx = rep.case(stream, if ops.len() >= 2 { Some(&req) } else { None });
    let run = run_raw(rt, n, ops);
    let got = dash(run.outs.clone(), ";");
    let model = drv.ask(&req);
    // Relay::ask(id, ttl) behaves as start_send(AskMsg::allocate(id, ttl)); a skipped feed changes nothing
    let plain: Vec<Op> = ops.iter().filter(|o| !matches!(o, Op::Skip(_))).map(|o| match o { Op::Ask(c, id, ttl) => Op::Send(*c, AskMsg::allocate(&MsgId::from(*id), *ttl)), o => o.clone() }).collect();
    let run2 = run_raw(rt, n, &plain);
    let outs_noskip: Vec<String> = ops.iter().zip(run.outs.iter()).filter(|(o, _)| !matches!(o, Op::Skip(_))).map(|(_, r)| r.clone()).collect();
    if ops.iter().zip(run.outs.iter()).any(|(o, r)| matches!(o, Op::Skip(_)) && r != "ok") {
        rep.pred_fail(fail(stream, idx, &req, "wrap:skip-is-noop", "MaybeFeed::skip() did not resolve to Ok(()) at its first poll", got.clone(), "ok".into()));
    } else if outs_noskip != run2.outs || run.dump != run2.dump || run.drained != run2.drained {
        let key = if ops.iter().any(|o| matches!(o, Op::Ask(..))) { "wrap:ask-is-feed-of-askmsg" } else { "wrap:skip-is-noop" };
        rep.pred_fail(fail(stream, idx, &req, key, "Relay::ask / MaybeFeed::skip: the script behaves differently from the one with explicit AskMsg frames and no skipped feeds",
            format!("{} # {}", got, run.dump), format!("{} # {}", dash(run2.outs, ";"), run2.dump)));
    }
    if ops.iter().any(|o| matches!(o, Op::Ask(..))) { rep.hist("raw:with-ask"); }
    if run.outs.iter().any(|r| r.starts_with("r:")) { rep.hist("raw:with-delivery"); }
    if got != model { rep.diverge(fail(stream, idx, &req, "wrap:raw-model", "Lean model Wrappers.rawStep and MessageRelay connections disagree", got, model)); }
}

fn stats_case(drv: &mut Driver, rep: &mut Report, rt: &tokio::runtime::Runtime, stream: &str, n: usize, ops: &[Op]) {
    let req = format!("wrap stats {n} {}", ops_str(ops));
    let idx = rep.case(stream, if ops.len() >= 2 { Some(&req) } else { None });
    let run = run_stats(rt, n, ops);
    let recs: Vec<String> = run.outs.iter().zip(run.counters.iter()).map(|(o, c)| match c { Some(c) => format!("{o}/{c}"), None => o.clone() }).collect();
    let got = format!("{}|{}", dash(recs, ";"), run.finals.iter().map(|s| s.full()).collect::<Vec<_>>().join(","));
    let model = drv.ask(&req);
    // transparency, implementation against implementation: the same script on unwrapped connections
    let raw = run_raw(rt, n, ops);
    if raw.outs != run.outs || raw.dump != run.dump {
        rep.pred_fail(fail(stream, idx, &req, "wrap:stats-transparent", "RelayStats changed what the wrapped relay delivers / accepts / stores", format!("{} # {}", dash(run.outs.clone(), ";"), run.dump), format!("{} # {}", dash(raw.outs.clone(), ";"), raw.dump)));
    }
    // the counters, recomputed from the implementation's own outputs
    let mut want: Vec<Snap> = (0..n).map(|_| Snap { sc: 0, ss: 0, rc: 0, rs: 0, ids: vec![] }).collect();
    for (op, out) in ops.iter().zip(run.outs.iter()) {
        match op {
            Op::Send(c, f) => { want[*c].sc += 1; want[*c].ss += f.len(); }
            Op::Ask(c, _, _) => { want[*c].sc += 1; want[*c].ss += MESSAGE_HEADER_SIZE; }
            Op::Poll(c) => if let Some(m) = polled(out) { want[*c].rc += 1; want[*c].rs += m.len(); if let Some(id) = frame_id(&m) { want[*c].ids.push(id.to_vec()); } }
            Op::Skip(_) | Op::Tick(_) => {}
        }
    }
    if want != run.finals {
        rep.pred_fail(fail(stream, idx, &req, "wrap:stats-counts", "Stats differ from the counts / sizes / ids of the frames that actually went through the wrapper",
            run.finals.iter().map(|s| s.full()).collect::<Vec<_>>().join(","), want.iter().map(|s| s.full()).collect::<Vec<_>>().join(",")));
    }
    if run.outs.iter().any(|r| r == "senderr") { rep.hist("stats:with-refused-send"); }
    if run.finals.iter().any(|s| s.rc > 0) { rep.hist("stats:with-delivery"); }
    if idx == 0 { rep.sample(json!({"stream": stream, "request": req, "impl": got, "model": model})); }
    if got != model { rep.diverge(fail(stream, idx, &req, "wrap:stats-model", "Lean model Wrappers.statsStep and RelayStats<MessageRelay> disagree", got, model)); }
}

pub struct Mock { script: VecDeque<Ev>, sunk: Vec<Vec<u8>> }
impl Stream for Mock {
    type Item = Vec<u8>;
    fn poll_next(mut self: Pin<&mut Self>, _cx: &mut Context<'_>) -> Poll<Option<Vec<u8>>> {
        match self.script.pop_front() { None | Some(Ev::Pending) => Poll::Pending, Some(Ev::Msg(m)) => Poll::Ready(Some(m)), Some(Ev::Closed) => Poll::Ready(None) }
    }
}
impl Sink<Vec<u8>> for Mock {
    type Error = MessageSendError;
    fn poll_ready(self: Pin<&mut Self>, _: &mut Context<'_>) -> Poll<Result<(), Self::Error>> { Poll::Ready(Ok(())) }
    fn start_send(mut self: Pin<&mut Self>, item: Vec<u8>) -> Result<(), Self::Error> {
        let bad = item.len() < MESSAGE_HEADER_SIZE;
        self.sunk.push(item);
        if bad { Err(MessageSendError) } else { Ok(()) }
    }
    fn poll_flush(self: Pin<&mut Self>, _: &mut Context<'_>) -> Poll<Result<(), Self::Error>> { Poll::Ready(Ok(())) }
    fn poll_close(self: Pin<&mut Self>, _: &mut Context<'_>) -> Poll<Result<(), Self::Error>> { Poll::Ready(Ok(())) }
}
impl Relay for Mock {}

/// RelayStats over a scripted relay: Pending points, end of stream, frames without a header
fn mock_case(drv: &mut Driver, rep: &mut Report, stream: &str, evs: &[Ev], ops: &[MockOp]) {
    let req = format!("wrap statsmock {} {}", dash(evs.iter().map(ev_str).collect(), ","), dash(ops.iter().map(mock_op_str).collect(), ","));
    let idx = rep.case(stream, if evs.len() >= 2 && ops.len() >= 2 { Some(&req) } else { None });
    let h = Stats::alloc();
    let mut w = RelayStats::new(Mock { script: evs.iter().cloned().collect(), sunk: vec![] }, h.clone());
    let mut outs = vec![];
    for op in ops {
        outs.push(match op {
            MockOp::Poll => match w.next().now_or_never() { None => "pending".into(), Some(None) => "closed".into(), Some(Some(m)) => format!("r:{}", hexw(&m)) },
            MockOp::Send(f) => send_res(catch_unwind(AssertUnwindSafe(|| Pin::new(&mut w).start_send(f.clone())))),
        });
    }
    let fin = snap(&h);
    let (sunk, left) = (w.sunk.clone(), w.script.len());      // Deref to the wrapped relay
    let got = format!("{}|{}|{}|{left}", dash(outs.clone(), ";"), fin.full(), dash(sunk.iter().map(|f| hexw(f)).collect(), "+"));
    let model = drv.ask(&req);
    // expected, straight from the script: the k-th poll returns the k-th event; every sent frame reaches the sink unaltered
    let mut q: VecDeque<Ev> = evs.iter().cloned().collect();
    let mut want = Snap { sc: 0, ss: 0, rc: 0, rs: 0, ids: vec![] };
    let (mut want_outs, mut want_sunk) = (vec![], vec![]);
    for op in ops {
        match op {
            MockOp::Poll => want_outs.push(match q.pop_front() { None | Some(Ev::Pending) => "pending".to_string(), Some(Ev::Closed) => "closed".into(),
                Some(Ev::Msg(m)) => { want.rc += 1; want.rs += m.len(); if let Some(id) = frame_id(&m) { want.ids.push(id.to_vec()); } format!("r:{}", hexw(&m)) } }),
            MockOp::Send(f) => { want.sc += 1; want.ss += f.len(); want_sunk.push(f.clone()); want_outs.push(if f.len() < MESSAGE_HEADER_SIZE { "senderr".into() } else { "ok".into() }); }
        }
    }
    if want_outs != outs || want_sunk != sunk || left != q.len() {
        rep.pred_fail(fail(stream, idx, &req, "wrap:stats-transparent", "RelayStats over a scripted relay: delivered frames / sink results / frames reaching the sink differ from the inner relay's", got.clone(), dash(want_outs, ";")));
    } else if want != fin {
        rep.pred_fail(fail(stream, idx, &req, "wrap:stats-counts", "Stats differ from the counts / sizes / ids of the frames that actually went through the wrapper", fin.full(), want.full()));
    }
    if evs.iter().any(|e| matches!(e, Ev::Msg(m) if m.len() < MESSAGE_HEADER_SIZE)) { rep.hist("statsmock:headerless-frame"); }
    if got != model { rep.diverge(fail(stream, idx, &req, "wrap:statsmock-model", "Lean model Wrappers.mockStep and RelayStats<Mock> disagree", got, model)); }
}

fn drop_str(d: &(Id, Option<usize>)) -> String { format!("{}@{}", hex::encode(d.0), d.1.map(|p| p.to_string()).unwrap_or("*".into())) }
fn parse_drop(s: &str) -> Option<(Id, Option<usize>)> { let (i, p) = s.split_once('@')?; Some((unhex32(i)?, if p == "*" { None } else { Some(p.parse().ok()?) })) }
fn inject_str(i: &(Vec<u8>, Cond)) -> String { format!("{}~{}", hexw(&i.0), cond_str(&i.1)) }
fn parse_inject(s: &str) -> Option<(Vec<u8>, Cond)> { let (m, c) = s.split_once('~')?; Some((unhex(m)?, parse_cond(c)?)) }

fn evil_case(drv: &mut Driver, rep: &mut Report, rt: &tokio::runtime::Runtime, stream: &str, n: usize, drops: &[(Id, Option<usize>)], injects: &[(Vec<u8>, Cond)], ops: &[Op]) {
    let req = format!("wrap evil {n} {} {} {}", dash(drops.iter().map(drop_str).collect(), ","), dash(injects.iter().map(inject_str).collect(), ","), ops_str(ops));
    let idx = rep.case(stream, if ops.len() >= 2 { Some(&req) } else { None });
    let run = run_evil(rt, n, drops, injects, ops);
    let recs: Vec<String> = ops.iter().zip(run.outs.iter().zip(run.evals.iter())).map(|(op, (o, ev))| match op {
        Op::Poll(_) => format!("{o}/{}/{}", ev.len(), ev.first().map(|e| seen_str(&e.0)).unwrap_or("?".into())), _ => o.clone() }).collect();
    let got = dash(recs, ";");
    let model = drv.ask(&req);
    // ---- the conclusions, on the implementation's own behaviour; reference = the same script on plain connections
    let raw = run_raw(rt, n, ops);
    let mut bad: Vec<(&str, String)> = vec![];
    let dropped = |c: usize, f: &[u8]| frame_id(f).map_or(false, |id| drops.iter().any(|(d, p)| *d == id && p.map_or(true, |p| p == c)));
    let mut seen: BTreeSet<Id> = BTreeSet::new();
    let mut fired = vec![0usize; injects.len()];
    let mut relayed: Vec<Vec<Vec<u8>>> = vec![vec![]; n];
    let classify = |c: usize, m: Vec<u8>, seen: &BTreeSet<Id>, fired: &mut Vec<usize>, relayed: &mut Vec<Vec<Vec<u8>>>, bad: &mut Vec<(&str, String)>| -> bool {
        match injects.iter().position(|i| i.0 == m) {
            Some(j) => {
                fired[j] += 1;
                if fired[j] > 1 { bad.push(("wrap:evil-inject-once", format!("injection {} delivered {} times", hexw(&m), fired[j]))); }
                if !injects[j].1.eval(seen, c) { bad.push(("wrap:evil-inject-cond", format!("injection {} delivered to party {c} while its condition {} is false (seen {})", hexw(&m), cond_str(&injects[j].1), seen_str(seen)))); }
                true
            }
            None => { relayed[c].push(m); false }
        }
    };
    for (k, op) in ops.iter().enumerate() {
        let out = &run.outs[k];
        match op {
            Op::Send(_, f) => { if let Some(id) = frame_id(f) { seen.insert(id); } }
            Op::Ask(_, id, _) => { seen.insert(*id); }
            Op::Poll(c) => {
                for (s, p) in &run.evals[k] {
                    if *s != seen { bad.push(("wrap:evil-seen", format!("op {k}: conditions saw the set {} but the ids of the frames sent so far are {}", seen_str(s), seen_str(&seen)))); }
                    if p != c { bad.push(("wrap:evil-party-index", format!("op {k}: poll on connection {c} evaluated the conditions for party {p}"))); }
                }
                let due = injects.iter().enumerate().any(|(j, i)| fired[j] == 0 && i.1.eval(&seen, *c));
                let was_injection = match polled(out) { Some(m) => classify(*c, m, &seen, &mut fired, &mut relayed, &mut bad), None => false };
                if due && !was_injection { bad.push(("wrap:evil-inject-first", format!("op {k}: an injection was due for party {c} but the poll returned {out}"))); }
            }
            Op::Skip(_) | Op::Tick(_) => {}
        }
        if !matches!(op, Op::Poll(_)) && *out != raw.outs[k] { bad.push(("wrap:evil-send-transparent", format!("op {k} ({}): {out} through the wrapper, {} on a plain connection", op_str(op), raw.outs[k]))); }
    }
    for (c, frames) in run.drained.iter().enumerate() { for m in frames { classify(c, m.clone(), &seen, &mut fired, &mut relayed, &mut bad); } }
    for (s, _) in &run.drain_evals { if *s != seen { bad.push(("wrap:evil-seen", format!("after the script the conditions saw {} but the ids sent are {}", seen_str(s), seen_str(&seen)))); break; } }
    for c in 0..n {
        let mut all: Vec<Vec<u8>> = ops.iter().zip(raw.outs.iter()).filter_map(|(o, r)| if *o == Op::Poll(c) { polled(r) } else { None }).collect();
        all.extend(raw.drained[c].iter().cloned());
        let want = sorted(all.into_iter().filter(|f| !dropped(c, f)).collect());
        let have = sorted(relayed[c].clone());
        if want != have {
            bad.push(("wrap:evil-drop-exact", format!("party {c} received {} relayed frames, the plain relay minus the matching drop rules gives {}: {:?} vs {:?}", have.len(), want.len(),
                have.iter().map(|f| hexw(f)).collect::<Vec<_>>(), want.iter().map(|f| hexw(f)).collect::<Vec<_>>())));
        }
    }
    if drops.is_empty() && injects.is_empty() && run.outs != raw.outs { bad.push(("wrap:evil-identity", format!("empty screenplay, yet {} differs from the plain relay's {}", dash(run.outs.clone(), ";"), dash(raw.outs.clone(), ";")))); }
    let n_inj: usize = fired.iter().sum();
    rep.hist(&format!("evil:injections-delivered={}", n_inj.min(3)));
    if (0..n).any(|c| { let t = ops.iter().zip(raw.outs.iter()).filter(|(o, r)| **o == Op::Poll(c) && r.starts_with("r:")).count() + raw.drained[c].len(); t > relayed[c].len() }) { rep.hist("evil:with-dropped-frame"); }
    if drops.is_empty() && injects.is_empty() { rep.hist("evil:empty-screenplay"); }
    if idx == 0 { rep.sample(json!({"stream": stream, "request": req, "impl": got, "model": model})); }
    let mut keys = HashSet::new();
    for (key, detail) in bad {
        if !keys.insert(key) { continue; }
        let what = match key {
            "wrap:evil-inject-once" => "an injected message was delivered more than once",
            "wrap:evil-inject-cond" => "an injected message was delivered although its condition was false for that party at that poll",
            "wrap:evil-inject-first" => "a relayed frame (or Pending) was returned while an injection was due",
            "wrap:evil-seen" => "the set handed to the injection conditions is not the set of ids of the sent frames that have a header",
            "wrap:evil-party-index" => "party index differs from the connection order",
            "wrap:evil-send-transparent" => "a send through the adversarial wrapper behaved differently from a send on a plain connection",
            "wrap:evil-drop-exact" => "the frames a party received are not exactly the plain relay's frames minus those matching a drop rule for that party",
            _ => "with no drop rules and no injections the adversarial relay differs from the plain relay",
        };
        rep.pred_fail(fail(stream, idx, &req, key, what, format!("{detail} # {got}"), "see Props/Wrappers.lean".into()));
    }
    if got != model { rep.diverge(fail(stream, idx, &req, "wrap:evil-model", "Lean model Wrappers.evilStep and EvilMessageRelay disagree", got, model)); }
}

fn tag_case(drv: &mut Driver, rep: &mut Report, stream: &str, seen: &mut HashMap<[u8; 8], String>, t: u32, p1: u32, p2: Option<u16>) {
    // p2 = None: tag1(t, p1);  Some(b): tag2(t, p1 as u16, b)
    let (req, bytes, canon) = match p2 {
        None => (format!("wrap tag1 {t:x} {p1:x}"), MessageTag::tag1(t, p1).to_bytes(), format!("{t:x}/{p1:x}")),
        Some(b) => (format!("wrap tag2 {t:x} {:x} {b:x}", p1 as u16), MessageTag::tag2(t, p1 as u16, b).to_bytes(), format!("{t:x}/{:x}", (p1 as u16 as u32) | (b as u32) << 16)),
    };
    let idx = rep.case(stream, Some(&req));
    let model = drv.ask(&req);
    let param = match p2 { None => p1, Some(b) => (p1 as u16 as u32) | (b as u32) << 16 };
    let mut want = t.to_le_bytes().to_vec(); want.extend(param.to_le_bytes());
    if bytes.to_vec() != want { rep.pred_fail(fail(stream, idx, &req, "wrap:tag-layout", "tag bytes are not LE(tag) ++ LE(param)", hex::encode(bytes), hex::encode(&want))); }
    if MessageTag::tag1(t, param).to_bytes() != bytes || MessageTag::tag(t as u64 | (param as u64) << 32).to_bytes() != bytes {
        rep.pred_fail(fail(stream, idx, &req, "wrap:tag2-as-tag1", "tag2(t,p1,p2) differs from tag1(t, p1 + 2^16 p2) / tag(t + 2^32 param)", hex::encode(bytes), hex::encode(MessageTag::tag1(t, param).to_bytes())));
    }
    // injectivity within the run: two different (tag, param) never share their bytes
    if let Some(prev) = seen.insert(bytes, canon.clone()) { if prev != canon { rep.pred_fail(fail(stream, idx, &req, "wrap:tag-injective", "two different (tag, parameter) pairs have the same tag bytes", canon, prev)); } }
    if hex::encode(bytes) != model { rep.diverge(fail(stream, idx, &req, "wrap:tag-model", "Lean model Wrappers.tag1/tag2 and MessageTag disagree", hex::encode(bytes), model)); }
}

fn tag64_case(drv: &mut Driver, rep: &mut Report, t: u64) {
    let req = format!("wrap tag {t:x}");
    let idx = rep.case("tags", Some(&req));
    let bytes = MessageTag::tag(t).to_bytes();
    let model = drv.ask(&req);
    if bytes != t.to_le_bytes() { rep.pred_fail(fail("tags", idx, &req, "wrap:tag-layout", "tag bytes are not the little-endian u64", hex::encode(bytes), hex::encode(t.to_le_bytes()))); }
    if hex::encode(bytes) != model { rep.diverge(fail("tags", idx, &req, "wrap:tag-model", "Lean model Wrappers.tag and MessageTag::tag disagree", hex::encode(bytes), model)); }
}

fn sha(parts: &[&[u8]]) -> Vec<u8> { use sha2::Digest; let mut h = sha2::Sha256::new(); for p in parts { h.update(p); } h.finalize().to_vec() }

fn msgid_case(drv: &mut Driver, rep: &mut Report, stream: &str, inst: Id, sender: &[u8], receiver: Option<&[u8]>, tag: u64) -> (Vec<u8>, String) {
    let tb = MessageTag::tag(tag).to_bytes();
    let req = format!("wrap msgid {} {} {} {}", hex::encode(inst), hexw(sender), receiver.map(hexw).unwrap_or("none".into()), hex::encode(tb));
    let idx = rep.case(stream, Some(&req));
    let id = MsgId::new(&InstanceId::from(inst), sender, receiver, MessageTag::tag(tag)).as_slice().to_vec();
    let model = drv.ask_with(&req, &mut |q| oracle::answer(q));
    let want = sha(&[&tb, sender, receiver.unwrap_or(&[]), &inst]);
    if id != want { rep.pred_fail(fail(stream, idx, &req, "wrap:msgid-hash", "MsgId::new is not SHA-256(tag ++ sender ++ receiver ++ instance)", hex::encode(&id), hex::encode(&want))); }
    if receiver.is_none() {
        let b = MsgId::broadcast(&InstanceId::from(inst), sender, MessageTag::tag(tag)).as_slice().to_vec();
        let mb = drv.ask_with(&format!("wrap bcast {} {} {}", hex::encode(inst), hexw(sender), hex::encode(tb)), &mut |q| oracle::answer(q));
        if b != id { rep.pred_fail(fail(stream, idx, &req, "wrap:msgid-broadcast", "MsgId::broadcast differs from MsgId::new with no receiver", hex::encode(&b), hex::encode(&id))); }
        if hex::encode(&b) != mb { rep.diverge(fail(stream, idx, &req, "wrap:msgid-model", "Lean model Wrappers.msgIdBroadcast and MsgId::broadcast disagree", hex::encode(&b), mb)); }
    }
    if hex::encode(&id) != model { rep.diverge(fail(stream, idx, &req, "wrap:msgid-model", "Lean model Wrappers.msgIdNew and MsgId::new disagree", hex::encode(&id), model)); }
    (id, req)
}

fn tryfrom_case(drv: &mut Driver, rep: &mut Report, bytes: &[u8]) {
    let req = format!("wrap tryfrom {}", hexw(bytes));
    let idx = rep.case("msgid-tryfrom", Some(&req));
    let got = match MsgId::try_from(bytes) { Ok(id) => format!("ok:{}", hex::encode(id.as_slice())), Err(()) => "err".into() };
    let want = if bytes.len() >= 32 { format!("ok:{}", hex::encode(&bytes[..32])) } else { "err".into() };
    let model = drv.ask(&req);
    if got != want { rep.pred_fail(fail("msgid-tryfrom", idx, &req, "wrap:msgid-tryfrom", "MsgId::try_from is not `the first 32 bytes of a slice of at least 32 bytes`", got.clone(), want)); }
    if got != model { rep.diverge(fail("msgid-tryfrom", idx, &req, "wrap:tryfrom-model", "Lean model Wrappers.msgIdTryFrom and MsgId::try_from disagree", got, model)); }
}

fn askmsg_case(drv: &mut Driver, rep: &mut Report, rt: &tokio::runtime::Runtime, id: Id, ttl: u32) {
    let req = format!("wrap askmsg {} {ttl}", hex::encode(id));
    let idx = rep.case("askmsg", Some(&req));
    let f = AskMsg::allocate(&MsgId::from(id), ttl);
    let dec = match <&MsgHdr>::try_from(f.as_slice()) { Ok(h) => format!("{}:{}:{}", hex::encode(h.id().as_slice()), h.ttl().as_secs(), h.flags()), Err(_) => "none".into() };
    // how the relay itself classifies the frame: an ASK registers a waiter, a publication is stored
    let cls = rt.block_on(async {
        verif_clock::set_secs(0);
        let relay = SimpleMessageRelay::new();
        let mut c = relay.connect();
        match Pin::new(&mut c).start_send(f.clone()) { Err(_) => "short", Ok(()) => { let (m, _) = relay.verif_dump(); match m.first() { Some((_, None, 1, _)) => "ask", Some((_, Some(_), _, _)) => "pub", _ => "other" } } }
    });
    let got = format!("{}|{dec}|{cls}", hexw(&f));
    let model = drv.ask(&req);
    let mut want = id.to_vec(); want.extend(((ttl & 0xffff) as u16).to_le_bytes()); want.extend([0u8, 0]);
    if f != want || dec != format!("{}:{}:0", hex::encode(id), ttl & 0xffff) || cls != "ask" {
        rep.pred_fail(fail("askmsg", idx, &req, "wrap:askmsg-layout", "AskMsg::allocate is not the bare 36-byte header (id, ttl mod 2^16, flags 0) that the relay treats as an ASK", got.clone(), format!("{}|{}:{}:0|ask", hex::encode(&want), hex::encode(id), ttl & 0xffff)));
    }
    if got != model { rep.diverge(fail("askmsg", idx, &req, "wrap:askmsg-model", "Lean model Wrappers.askAllocate and AskMsg::allocate disagree", got, model)); }
}

// ------------------------------------------------------------------------------------------------ replay

pub fn replay(drv: &mut Driver, rep: &mut Report, lines: &[String]) {
    let rt = tokio::runtime::Builder::new_current_thread().build().unwrap();
    let mut tags = HashMap::new();
    for l in lines {
        let t: Vec<&str> = l.split(' ').collect();
        if t.first() != Some(&"wrap") { continue; }
        let h32 = |s: &str| u32::from_str_radix(s, 16).ok();
        match t.as_slice() {
            ["wrap", "raw", n, ops] => if let (Ok(n), Some(ops)) = (n.parse(), parse_list(ops, parse_op)) { raw_case(drv, rep, &rt, "replay", n, &ops); }
            ["wrap", "stats", n, ops] => if let (Ok(n), Some(ops)) = (n.parse(), parse_list(ops, parse_op)) { stats_case(drv, rep, &rt, "replay", n, &ops); }
            ["wrap", "statsmock", evs, ops] => if let (Some(evs), Some(ops)) = (parse_list(evs, parse_ev), parse_list(ops, parse_mock_op)) { mock_case(drv, rep, "replay", &evs, &ops); }
            ["wrap", "evil", n, d, i, ops] => if let (Ok(n), Some(d), Some(i), Some(ops)) = (n.parse(), parse_list(d, parse_drop), parse_list(i, parse_inject), parse_list(ops, parse_op)) { evil_case(drv, rep, &rt, "replay", n, &d, &i, &ops); }
            ["wrap", "tag", v] => if let Ok(v) = u64::from_str_radix(v, 16) { tag64_case(drv, rep, v); }
            ["wrap", "tag1", a, b] => if let (Some(a), Some(b)) = (h32(a), h32(b)) { tag_case(drv, rep, "replay", &mut tags, a, b, None); }
            ["wrap", "tag2", a, b, c] => if let (Some(a), Some(b), Some(c)) = (h32(a), h32(b), h32(c)) { tag_case(drv, rep, "replay", &mut tags, a, b, Some(c as u16)); }
            ["wrap", "msgid", i, s, r, tg] => if let (Some(i), Some(s), Some(tg)) = (unhex32(i), unhex(s), unhex(tg)) {
                let r = if *r == "none" { None } else { unhex(r) };
                if let Ok(tb) = <[u8; 8]>::try_from(tg.as_slice()) { msgid_case(drv, rep, "replay", i, &s, r.as_deref(), u64::from_le_bytes(tb)); } }
            ["wrap", "tryfrom", b] => if let Some(b) = unhex(b) { tryfrom_case(drv, rep, &b); }
            ["wrap", "askmsg", i, ttl] => if let (Some(i), Ok(ttl)) = (unhex32(i), ttl.parse()) { askmsg_case(drv, rep, &rt, i, ttl); }
            _ => {}
        }
    }
}

// ------------------------------------------------------------------------------------------------ generators

const NCONN: usize = 3;

fn rand_op(rng: &mut impl Rng, polls: u32) -> Op {
    let c = rng.gen_range(0..NCONN);
    let ttl = [0u32, 1, 2, 5, 65537][rng.gen_range(0..5)];
    match rng.gen_range(0..100u32) {
        x if x < polls => Op::Poll(c),
        x if x < polls + 22 => Op::Send(c, pub_frame(rng.gen_range(0..5), ttl, rng.gen_range(1..4))),
        x if x < polls + 40 => Op::Ask(c, id_of(rng.gen_range(0..5)), ttl),
        x if x < polls + 45 => Op::Send(c, ask_frame(rng.gen_range(0..5), ttl)),
        x if x < polls + 52 => Op::Tick(rng.gen_range(0..4)),
        x if x < polls + 56 => Op::Skip(c),
        x if x < polls + 61 => Op::Send(c, (0..rng.gen_range(0..36)).map(|_| rng.gen()).collect()),            // no header: refused, not seen
        _ => { let mut f = pub_frame(rng.gen_range(0..3), 1, 9); f.extend((0..rng.gen_range(0..20)).map(|_| rng.gen::<u8>())); Op::Send(c, f) }
    }
}

fn rand_cond(rng: &mut impl Rng) -> Cond {
    match rng.gen_range(0..10) { 0 => Cond::Always, 1 => Cond::Never, 2 | 3 => Cond::Seen(id_of(rng.gen_range(0..5))), 4 => Cond::Unseen(id_of(rng.gen_range(0..5))),
        5 | 6 => Cond::Party(rng.gen_range(0..NCONN + 1)), 7 | 8 => Cond::SeenParty(id_of(rng.gen_range(0..5)), rng.gen_range(0..NCONN)), _ => Cond::SeenCount(rng.gen_range(0..4)) }
}

/// injected messages are pairwise distinct and never equal to a relayed frame (first byte 0xEE; relay ids start 0xA.)
fn inject_msg(j: usize, shape: u32) -> Vec<u8> {
    match shape % 4 { 0 => vec![0xEE, j as u8], 1 => { let mut m = vec![0xEE; 35]; m[1] = j as u8; m }                 // shorter than a header
        2 => { let mut m = vec![0xEE; 36]; m[1] = j as u8; m }                                                          // looks like an ASK
        _ => { let mut m = pub_frame(0, 1, 7); m[0] = 0xEE; m[1] = j as u8; m } }                                       // looks like a publication
}

pub fn run(o: &Opts, drv: &mut Driver, rep: &mut Report) {
    let thorough = o.tier == "thorough";
    let rt = tokio::runtime::Builder::new_current_thread().build().unwrap();
    let mut rng = case_rng(o.seed, "c21w");
    let scale = o.scale as usize;

    // ---- tags: boundaries of every field, near pairs, the documented test vectors
    let mut tags = HashMap::new();
    let edge32 = [0u32, 1, 0xff, 0x100, 0xffff, 0x1_0000, 0x7fff_ffff, 0x8000_0000, 0xffff_ffff, 0x1020_3040, 0xAABB_CCDD];
    for &t in &edge32 { for &p in &edge32 { tag_case(drv, rep, "tags", &mut tags, t, p, None); } }
    let edge16 = [0u16, 1, 0xff, 0x100, 0x7fff, 0x8000, 0xffff, 0xEEFF, 0xDEAD];
    for &t in &[0u32, 1, 0xffff_ffff, 0x1020_3040] { for &a in &edge16 { for &b in &edge16 { tag_case(drv, rep, "tags", &mut tags, t, a as u32, Some(b)); } } }
    rep.exhaustive.push("tag1 on 11x11 boundary values of (tag, param); tag2 on 4 x 9x9 boundary values of (tag, param1, param2)".into());
    for k in 0..(if thorough { 4000 } else { 300 }) * scale {
        let (t, p): (u32, u32) = (rng.gen(), rng.gen());
        match k % 3 { 0 => tag_case(drv, rep, "tags", &mut tags, t, p, None), 1 => tag_case(drv, rep, "tags", &mut tags, t, p, Some(rng.gen())),
            _ => { tag_case(drv, rep, "tags", &mut tags, t, p ^ (1 << rng.gen_range(0..32)), None); tag_case(drv, rep, "tags", &mut tags, t ^ (1 << rng.gen_range(0..32)), p, None); } }
    }
    for &t in &[0u64, 1, u64::MAX, 0x1020304050607080, 1 << 32, 1 << 48, (1 << 32) - 1] { tag64_case(drv, rep, t); }

    // ---- message ids: empty strings, receivers None / empty, every split of one concatenation, near instances
    let mut split_collisions = 0u64;
    for k in 0..(if thorough { 600 } else { 60 }) * scale {
        let mut inst = [0u8; 32]; rng.fill(&mut inst);
        let len = [0usize, 1, 2, 33, 66][k % 5];
        let whole: Vec<u8> = (0..len).map(|_| rng.gen()).collect();
        let tag: u64 = if k % 4 == 0 { 0 } else { rng.gen() };
        let mut ids = vec![];
        for cut in 0..=len.min(4) {
            let cut = if cut == 4 { len } else { cut.min(len) };
            ids.push(msgid_case(drv, rep, "msgid-splits", inst, &whole[..cut], Some(&whole[cut..]), tag).0);
        }
        // the same bytes with no receiver at all, and as broadcast
        ids.push(msgid_case(drv, rep, "msgid-splits", inst, &whole, None, tag).0);
        if ids.iter().all(|i| *i == ids[0]) && len > 0 { split_collisions += 1; rep.hist("msgid:all-splits-of-one-concatenation-give-one-id"); }
        // near inputs must not collide (instance bit, tag bit, one more sender byte)
        let (base, base_req) = msgid_case(drv, rep, "msgid-near", inst, &whole, Some(&[7]), tag);
        let mut i2 = inst; i2[rng.gen_range(0..32)] ^= 1 << rng.gen_range(0..8);
        let mut w2 = whole.clone(); w2.push(0);
        for (other, other_req) in [msgid_case(drv, rep, "msgid-near", i2, &whole, Some(&[7]), tag), msgid_case(drv, rep, "msgid-near", inst, &whole, Some(&[7]), tag ^ (1 << rng.gen_range(0..64))),
                      msgid_case(drv, rep, "msgid-near", inst, &w2, Some(&[7]), tag)] {
            if other == base {
                let mut f = fail("msgid-near", 0, &base_req, "wrap:msgid-near-collision", "two message ids with different hashed bytes coincide", hex::encode(&other), "distinct".into());
                f.request.push(other_req);
                rep.pred_fail(f);
            }
        }
    }
    if split_collisions > 0 {
        rep.notes.push(format!("OBSERVATION (not one of the properties): MsgId::new hashes tag ++ sender ++ receiver ++ instance without framing; in {split_collisions} generated groups every (sender, receiver) split of one byte string, `receiver = None` included, produced the SAME id (Props/Wrappers.lean msgId_split_collision)"));
    }
    for k in 0..(if thorough { 400 } else { 80 }) {
        let len = [0usize, 1, 31, 32, 33, 36, 64][k % 7];
        let b: Vec<u8> = (0..len).map(|_| rng.gen()).collect();
        tryfrom_case(drv, rep, &b);
    }
    for k in 0..(if thorough { 400 } else { 60 }) {
        let id = if k % 3 == 0 { id_of((k % 7) as u8) } else { let mut i = [0u8; 32]; rng.fill(&mut i); i };
        let ttl = match k % 6 { 0 => 0, 1 => 65535, 2 => 65536, 3 => u32::MAX, 4 => 65537, _ => rng.gen_range(0..65536) };
        askmsg_case(drv, rep, &rt, id, ttl);
    }

    // ---- plain connections: Relay::ask, MaybeFeed::skip
    for _ in 0..(if thorough { 5000 } else { 400 }) * scale {
        let len = rng.gen_range(2..30);
        let ops: Vec<Op> = (0..len).map(|_| rand_op(&mut rng, 30)).collect();
        raw_case(drv, rep, &rt, "raw-random", NCONN, &ops);
    }

    // ---- RelayStats over real connections
    let alpha: Vec<Op> = vec![Op::Ask(0, id_of(0), 1), Op::Ask(1, id_of(1), 1), Op::Send(1, pub_frame(0, 1, 1)), Op::Send(0, pub_frame(1, 2, 2)), Op::Send(0, vec![1, 2, 3]),
        Op::Poll(0), Op::Poll(1), Op::Tick(2), Op::Skip(0)];
    let maxlen = if thorough { 4 } else { 3 };
    for len in 1..=maxlen {
        let mut ix = vec![0usize; len];
        loop {
            let ops: Vec<Op> = ix.iter().map(|&i| alpha[i].clone()).collect();
            stats_case(drv, rep, &rt, &format!("stats-exhaustive-len{len}"), 2, &ops);
            let mut k = 0;
            while k < len { ix[k] += 1; if ix[k] < alpha.len() { break; } ix[k] = 0; k += 1; }
            if k == len { break; }
        }
    }
    rep.exhaustive.push(format!("RelayStats: all scripts of length <= {maxlen} over {} operations (ask / publish / headerless send / poll on 2 wrapped connections, clock, skipped feed)", alpha.len()));
    for _ in 0..(if thorough { 8000 } else { 600 }) * scale {
        let len = rng.gen_range(2..40);
        let ops: Vec<Op> = (0..len).map(|_| rand_op(&mut rng, 35)).collect();
        stats_case(drv, rep, &rt, "stats-random", NCONN, &ops);
    }
    // ---- RelayStats over a scripted relay (Pending, end of stream, frames without header that a real relay never yields)
    for _ in 0..(if thorough { 12000 } else { 1000 }) * scale {
        let evs: Vec<Ev> = (0..rng.gen_range(0..10)).map(|_| match rng.gen_range(0..10) { 0..=4 => Ev::Msg(pub_frame(rng.gen_range(0..4), 1, rng.gen_range(1..4))), 5 => Ev::Msg(ask_frame(rng.gen_range(0..4), 1)),
            6 => Ev::Msg((0..rng.gen_range(0..36)).map(|_| rng.gen()).collect()), 7 | 8 => Ev::Pending, _ => Ev::Closed }).collect();
        let ops: Vec<MockOp> = (0..rng.gen_range(1..14)).map(|_| match rng.gen_range(0..10) { 0..=6 => MockOp::Poll, 7 => MockOp::Send((0..rng.gen_range(0..36)).map(|_| rng.gen()).collect()), _ => MockOp::Send(pub_frame(rng.gen_range(0..4), 1, 1)) }).collect();
        mock_case(drv, rep, "stats-scripted-relay", &evs, &ops);
    }

    // ---- EvilMessageRelay
    // (a) empty screenplay = plain relay
    for _ in 0..(if thorough { 3000 } else { 300 }) * scale {
        let len = rng.gen_range(2..30);
        let ops: Vec<Op> = (0..len).map(|_| rand_op(&mut rng, 35)).collect();
        evil_case(drv, rep, &rt, "evil-empty-screenplay", NCONN, &[], &[], &ops);
    }
    // (b) every condition x every drop-rule shape on a fixed story: party 0 asks ids 0 and 1, party 1 asks id 0, party 2 publishes both;
    //     the injections become due only after id 1 / id 0 has been SENT (asked or published)
    let conds = vec![Cond::Always, Cond::Never, Cond::Seen(id_of(1)), Cond::Seen(id_of(0)), Cond::Unseen(id_of(1)), Cond::Party(0), Cond::Party(1), Cond::Party(7),
        Cond::SeenParty(id_of(1), 0), Cond::SeenParty(id_of(1), 1), Cond::SeenCount(0), Cond::SeenCount(2), Cond::Seen(id_of(2)), Cond::Seen(id_of(3))];
    let drop_sets: Vec<Vec<(Id, Option<usize>)>> = vec![vec![], vec![(id_of(0), None)], vec![(id_of(0), Some(0))], vec![(id_of(0), Some(1))], vec![(id_of(1), Some(0)), (id_of(0), Some(1))],
        vec![(id_of(1), None), (id_of(1), Some(0))], vec![(id_of(2), None), (id_of(3), Some(0))], vec![(id_of(0), Some(9))]];
    let story = vec![Op::Poll(0), Op::Ask(0, id_of(0), 5), Op::Poll(0), Op::Poll(1), Op::Ask(1, id_of(0), 5), Op::Send(2, pub_frame(0, 5, 1)), Op::Poll(1), Op::Poll(0), Op::Poll(2),
        Op::Send(2, pub_frame(1, 5, 2)), Op::Poll(2), Op::Ask(0, id_of(1), 5), Op::Poll(0), Op::Poll(0), Op::Poll(1), Op::Send(1, vec![9; 20]), Op::Poll(1), Op::Ask(2, id_of(0), 1), Op::Poll(2), Op::Poll(2)];
    for (ci, c1) in conds.iter().enumerate() {
        for ds in &drop_sets {
            let c2 = &conds[(ci * 5 + 3) % conds.len()];
            let injects = vec![(inject_msg(0, ci as u32), c1.clone()), (inject_msg(1, ci as u32 + 1), c2.clone()), (inject_msg(2, 3), Cond::Never)];
            evil_case(drv, rep, &rt, "evil-directed", NCONN, ds, &injects, &story);
        }
    }
    rep.exhaustive.push(format!("EvilPlay: {} injection conditions x {} drop-rule sets on a fixed 20-operation story of 3 parties", conds.len(), drop_sets.len()));
    // (c) all short scripts over a small alphabet with a fixed screenplay (swap_remove order, drop for one party vs. all)
    let ealpha: Vec<Op> = vec![Op::Ask(0, id_of(0), 3), Op::Ask(1, id_of(0), 3), Op::Send(1, pub_frame(0, 3, 1)), Op::Send(0, pub_frame(1, 3, 2)), Op::Ask(1, id_of(1), 3), Op::Poll(0), Op::Poll(1)];
    let edrops = vec![(id_of(0), Some(1usize)), (id_of(1), None)];
    let einj = vec![(inject_msg(0, 0), Cond::Seen(id_of(1))), (inject_msg(1, 2), Cond::Party(1)), (inject_msg(2, 3), Cond::SeenParty(id_of(0), 0)), (inject_msg(3, 1), Cond::SeenCount(2))];
    let emax = if thorough { 5 } else { 4 };
    for len in 1..=emax {
        let mut ix = vec![0usize; len];
        loop {
            let ops: Vec<Op> = ix.iter().map(|&i| ealpha[i].clone()).collect();
            evil_case(drv, rep, &rt, &format!("evil-exhaustive-len{len}"), 2, &edrops, &einj, &ops);
            let mut k = 0;
            while k < len { ix[k] += 1; if ix[k] < ealpha.len() { break; } ix[k] = 0; k += 1; }
            if k == len { break; }
        }
    }
    rep.exhaustive.push(format!("EvilPlay: all scripts of length <= {emax} over {} operations of 2 parties with 2 drop rules (one party / all) and 4 injections", ealpha.len()));
    // (d) random screenplays and scripts
    for _ in 0..(if thorough { 20000 } else { 1500 }) * scale {
        let drops: Vec<(Id, Option<usize>)> = (0..rng.gen_range(0..4)).map(|_| (id_of(rng.gen_range(0..5)), if rng.gen_bool(0.5) { None } else { Some(rng.gen_range(0..NCONN + 1)) })).collect();
        let injects: Vec<(Vec<u8>, Cond)> = (0..rng.gen_range(0..5)).map(|j| (inject_msg(j, rng.gen()), rand_cond(&mut rng))).collect();
        let len = rng.gen_range(2..40);
        let ops: Vec<Op> = (0..len).map(|_| rand_op(&mut rng, 38)).collect();
        evil_case(drv, rep, &rt, "evil-random", NCONN, &drops, &injects, &ops);
    }
}
