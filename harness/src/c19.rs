//! C19: binary_field_multiply_gf_2_128 vs. the Lean model `Gf.mul` and the proved spec `Gf.specMul`.
use crate::{driver::Driver, report::{Failure, Report}, rng::case_rng, Opts};
use rand::{Rng, RngCore};
use serde_json::json;
use sl_oblivious::soft_spoken::verif_binary_field_multiply_gf_2_128 as gfmul;

fn one(drv: &mut Driver, rep: &mut Report, stream: &str, a: [u8; 16], b: [u8; 16]) {
    let req = format!("gf mul {} {}", hex::encode(a), hex::encode(b));
    let nontrivial = a != [0u8; 16] && b != [0u8; 16];
    let idx = rep.case(stream, if nontrivial { Some(&req) } else { None });
    let got = hex::encode(gfmul(&a, &b));
    let ans = drv.ask(&req);
    let mut it = ans.split(' ');
    let model = it.next().unwrap_or("").to_string();
    let spec = it.next().unwrap_or("").to_string();
    // third field: the literal byte-array model `Gf.mulBytes` (proved equal to the Nat-level model: C19.mulBytes_eq)
    let bytes_model = it.next().unwrap_or("").to_string();
    let hi = |x: &[u8; 16]| 127 - u128::from_le_bytes(*x).leading_zeros().min(127);
    if nontrivial && hi(&a) + hi(&b) >= 128 { rep.hist("needs_reduction"); } else { rep.hist("no_reduction"); }
    if idx < 2 { rep.sample(json!({"stream": stream, "request": req, "impl": got, "model": model, "spec": spec})); }
    if got != spec {
        rep.pred_fail(Failure { stream: stream.into(), index: idx, request: vec![req.clone()], impl_out: got.clone(),
            model_out: spec.clone(), key: "gf128:product!=spec".into(),
            what: "implementation product differs from the GF(2)[x]/(x^128+x^7+x^2+x+1) product".into() });
    }
    if got != model || got != bytes_model {
        rep.diverge(Failure { stream: stream.into(), index: idx, request: vec![req], impl_out: got, model_out: format!("{model} {bytes_model}"),
            key: "gf128:model".into(), what: "Lean models (Gf.mul on integers / Gf.mulBytes on byte arrays) and implementation disagree".into() });
    }
}

pub fn replay(drv: &mut Driver, rep: &mut Report, lines: &[String]) {
    for l in lines {
        let t: Vec<&str> = l.split(' ').collect();
        if t.len() == 4 && t[0] == "gf" && t[1] == "mul" {
            let mut a = [0u8; 16]; let mut b = [0u8; 16];
            if hex::decode_to_slice(t[2], &mut a).is_ok() && hex::decode_to_slice(t[3], &mut b).is_ok() {
                one(drv, rep, "replay", a, b);
            }
        }
    }
}

/// the same products under a SECOND build configuration of this machine (`harness-native`, `-C target-cpu=native`: code
/// selected by `#[cfg(target_feature = …)]` is compiled there): the product is a function of the operands, not of the build
fn second_build(o: &Opts, rep: &mut Report) {
    use std::io::{BufRead, BufReader, Write};
    let bin = std::env::var("VERIF_SLNATIVE").unwrap_or_else(|_| "/verif/.build/cargo-native/release/slnative".into());
    if !std::path::Path::new(&bin).exists() { rep.notes.push(format!("second build configuration not compared: {bin} is missing")); return; }
    let mono = |i: usize| { let mut x = [0u8; 16]; x[i / 8] = 1 << (i % 8); x };
    let mut pairs: Vec<([u8; 16], [u8; 16])> = vec![];
    for i in 0..128 { for j in 0..128 { pairs.push((mono(i), mono(j))); } }
    let mut rng = case_rng(o.seed, "c19-native");
    for k in 0..(if o.tier == "thorough" { 20000 } else { 2000 }) {
        let (mut a, mut b) = ([0u8; 16], [0u8; 16]); rng.fill_bytes(&mut a); rng.fill_bytes(&mut b);
        if k % 5 == 0 { b = [0u8; 16]; b[k % 16] = 1; } if k % 7 == 0 { a = [0xff; 16]; }
        pairs.push((a, b));
    }
    let Ok(mut child) = std::process::Command::new(&bin).stdin(std::process::Stdio::piped()).stdout(std::process::Stdio::piped()).spawn() else { rep.notes.push("second build configuration: helper could not be started".into()); return; };
    let mut stdin = child.stdin.take().unwrap();
    let input: String = pairs.iter().map(|(a, b)| format!("{} {}\n", hex::encode(a), hex::encode(b))).collect();
    let writer = std::thread::spawn(move || { let _ = stdin.write_all(input.as_bytes()); });
    let out = BufReader::new(child.stdout.take().unwrap());
    let mut n = 0usize;
    for (line, (a, b)) in out.lines().zip(pairs.iter()) {
        let Ok(line) = line else { break };
        n += 1;
        let here = hex::encode(gfmul(a, b));
        if line.trim() != here {
            let req = format!("gf mul {} {}", hex::encode(a), hex::encode(b));
            let idx = rep.case("second-build-configuration", Some(&req));
            rep.pred_fail(Failure { stream: "second-build-configuration".into(), index: idx, request: vec![req], impl_out: format!("target-cpu=native build: {}", line.trim()), model_out: format!("default build: {here}"),
                key: "gf128:build-configuration".into(), what: "the product differs between the default build and the build with the host's target features enabled".into() });
        }
    }
    let _ = writer.join(); let _ = child.wait();
    for _ in 0..n.min(1) { rep.case("second-build-configuration", Some("summary")); }
    *rep.histogram.entry("second-build-configuration:pairs-compared".into()).or_insert(0) += n as u64;
    if n != pairs.len() { rep.notes.push(format!("second build configuration: helper answered {n} of {} pairs", pairs.len())); }
}

pub fn run(o: &Opts, drv: &mut Driver, rep: &mut Report) {
    second_build(o, rep);
    let thorough = o.tier == "thorough";
    let scale = o.scale;
    let mono = |i: usize| { let mut x = [0u8; 16]; x[i / 8] = 1 << (i % 8); x };
    // monomial pairs x^i * x^j: all 16384 in thorough (exhaustive), a seed-rotated diagonal band in quick
    if thorough || scale > 1 {
        for i in 0..128 { for j in 0..128 { one(drv, rep, "monomial", mono(i), mono(j)); } }
        rep.exhaustive.push("all 128x128 monomial pairs".into());
    } else {
        for i in 0..128 { for d in [0usize, 1, 7, 64, 127, (o.seed as usize * 13 + i) % 128] {
            one(drv, rep, "monomial", mono(i), mono((i + d) % 128)); } }
    }
    let mut rng = case_rng(o.seed, "c19");
    // constant-byte operands (0x01 repeated is NOT the field's 1; 0x80 …, 0xff …): every byte value on either side
    for v in 0..=255u8 {
        let c = [v; 16];
        let mut r = [0u8; 16]; rng.fill_bytes(&mut r);
        one(drv, rep, "constant-byte", c, r); one(drv, rep, "constant-byte", r, c);
        if v % 16 == 1 || v == 0xff || v == 0x80 { one(drv, rep, "constant-byte", c, c); one(drv, rep, "constant-byte", mono((v as usize) % 128), c); one(drv, rep, "constant-byte", c, mono((v as usize * 7) % 128)); }
    }
    let n = if thorough { 200_000 } else { 1500 } * scale;
    let mut one1 = [0u8; 16]; one1[0] = 1;
    for k in 0..n {
        let mut a = [0u8; 16]; let mut b = [0u8; 16];
        rng.fill_bytes(&mut a); rng.fill_bytes(&mut b);
        match k % 8 {
            0 => one(drv, rep, "identity", a, one1),
            1 => one(drv, rep, "square", a, a),
            2 => { // sparse
                let mut s = [0u8; 16]; for _ in 0..3 { let p = rng.gen_range(0..128); s[p / 8] |= 1 << (p % 8); }
                one(drv, rep, "sparse", s, b) }
            3 => { // dense high bytes: carries across every byte boundary of the reduction
                let p = rng.gen_range(0..16); for x in a[p..].iter_mut() { *x = 0xff; }
                one(drv, rep, "dense-high", a, b) }
            4 => { one(drv, rep, "commute", b, a); one(drv, rep, "commute", a, b) }
            _ => one(drv, rep, "random", a, b),
        }
    }
    // periodic operands (period 1, 2, 4, 8 bytes): equal halves / quarters, the blind spot of split-and-recombine rewrites
    for k in 0..(if thorough { 4000 } else { 64 }) * scale {
        let per = [1usize, 2, 4, 8][(k % 4) as usize];
        let mut pat = [0u8; 8]; rng.fill_bytes(&mut pat);
        if k % 8 < 4 { pat = [0xff; 8]; pat[(k as usize / 8) % 8] ^= 1 << (k % 7); }
        let mut a = [0u8; 16]; for i in 0..16 { a[i] = pat[i % per]; }
        let mut b = [0u8; 16]; rng.fill_bytes(&mut b);
        match k % 3 { 0 => one(drv, rep, "periodic", a, b), 1 => one(drv, rep, "periodic", b, a), _ => one(drv, rep, "periodic", a, one1) }
    }
    one(drv, rep, "boundary", [0xff; 16], [0xff; 16]);
    one(drv, rep, "boundary", [0; 16], [0xff; 16]);
    one(drv, rep, "boundary", [0xff; 16], [0; 16]);
}
