//! C20: mod_bareiss_determinant / matrix_inverse vs. the Lean model (Model/Matrix.lean).
//! Predicates on the implementation's own output: det == Laplace expansion (driver `mat lap`),
//! inverse * A == I (driver `mat mulid`), singular => determinant reported as zero (no error, no panic).
use crate::{driver::Driver, report::{Failure, Report}, rng::case_rng, Opts};
use elliptic_curve::{Field, PrimeField};
use k256::{Scalar, Secp256k1};
use rand::{seq::SliceRandom, Rng, RngCore};
use serde_json::json;
use sl_mpc_mate::matrix::{matrix_inverse, verif_mod_bareiss_determinant as det};
use std::panic::{catch_unwind, AssertUnwindSafe};

pub fn sc_hex(s: &Scalar) -> String { hex::encode(s.to_bytes()) }
pub fn sc_from_hex(h: &str) -> Option<Scalar> {
    let mut b = [0u8; 32];
    let v = hex::decode(if h.len() % 2 == 1 { format!("0{h}") } else { h.to_string() }).ok()?;
    if v.len() > 32 { return None; }
    b[32 - v.len()..].copy_from_slice(&v);
    Option::from(Scalar::from_repr(b.into()))
}
fn mat_str(m: &[Vec<Scalar>]) -> String {
    let v: Vec<String> = m.iter().flat_map(|r| r.iter().map(sc_hex)).collect();
    if v.is_empty() { "-".into() } else { v.join(",") }
}

fn one(drv: &mut Driver, rep: &mut Report, stream: &str, m: Vec<Vec<Scalar>>) {
    let n = m.len();
    let es = mat_str(&m);
    let req_det = format!("mat det {n} {es}");
    let req_inv = format!("mat inv {n} {es}");
    let idx = rep.case(stream, if n >= 2 { Some(&req_det) } else { None });
    rep.hist(&format!("n={n}"));
    // ---- determinant
    let got = match catch_unwind(AssertUnwindSafe(|| det::<Secp256k1>(m.clone(), n))) {
        Ok(Ok(d)) => format!("ok:{}", sc_hex(&d)), Ok(Err(_)) => "err".into(), Err(_) => "panic".into() };
    let model = drv.ask(&req_det);
    let lap = drv.ask(&format!("mat lap {n} {es}"));
    let singular = lap.chars().all(|c| c == '0');
    rep.hist(if singular { "singular" } else { "invertible" });
    if idx < 1 && n >= 3 { rep.sample(json!({"stream": stream, "request": req_det, "impl": got, "model": model, "leibniz": lap})); }
    if got != format!("ok:{lap}") {
        rep.pred_fail(Failure { stream: stream.into(), index: idx, request: vec![req_det.clone()], impl_out: got.clone(),
            model_out: format!("ok:{lap}"), key: format!("det:n={}{}", if n <= 1 { n.to_string() } else { "≥2".into() }, if singular { ":singular" } else { "" }),
            what: "computed determinant differs from the Leibniz determinant (or is an error/panic)".into() });
    }
    if got != model {
        rep.diverge(Failure { stream: stream.into(), index: idx, request: vec![req_det.clone()], impl_out: got.clone(), model_out: model,
            key: "det:model".into(), what: "Lean model Mat.determinant and mod_bareiss_determinant disagree".into() });
    }
    // ---- inverse
    let got_inv = match catch_unwind(AssertUnwindSafe(|| matrix_inverse::<Secp256k1>(m.clone(), n))) {
        Ok(r) => format!("ok:{}", mat_str(&r)), Err(_) => "panic".to_string() };
    let model_inv = drv.ask(&req_inv);
    if !singular {
        let good = match got_inv.strip_prefix("ok:") {
            Some(b) if b.split(',').count() == n * n => drv.ask(&format!("mat mulid {n} {es} {b}")) == "1",
            _ => false };
        if !good {
            rep.pred_fail(Failure { stream: stream.into(), index: idx, request: vec![req_inv.clone()], impl_out: got_inv.clone(),
                model_out: "a matrix B with B*A = I".into(), key: format!("inverse:n={}", if n <= 2 { n.to_string() } else { "≥3".into() }),
                what: "matrix_inverse of an invertible matrix is not its inverse (or panics)".into() });
        }
    }
    if got_inv != model_inv {
        rep.diverge(Failure { stream: stream.into(), index: idx, request: vec![req_inv], impl_out: got_inv, model_out: model_inv,
            key: "inverse:model".into(), what: "Lean model Mat.inverse and matrix_inverse disagree".into() });
    }
}

pub fn replay(drv: &mut Driver, rep: &mut Report, lines: &[String]) {
    for l in lines {
        let t: Vec<&str> = l.split(' ').collect();
        if t.len() == 4 && t[0] == "mat" {
            let n: usize = t[2].parse().unwrap_or(0);
            let es: Vec<Scalar> = if t[3] == "-" { vec![] } else { t[3].split(',').filter_map(sc_from_hex).collect() };
            if es.len() == n * n { one(drv, rep, "replay", es.chunks(n.max(1)).map(|c| c.to_vec()).collect()); }
        }
    }
}

fn small(v: u64) -> Scalar { Scalar::from(v) }

pub fn run(o: &Opts, drv: &mut Driver, rep: &mut Report) {
    let thorough = o.tier == "thorough";
    let mut rng = case_rng(o.seed, "c20");
    // exhaustive families
    if thorough {
        for code in 0..19683u32 { let mut c = code; let mut m = vec![vec![Scalar::ZERO; 3]; 3];
            for i in 0..3 { for j in 0..3 { m[i][j] = small((c % 3) as u64); c /= 3; } } one(drv, rep, "all-3x3-over-012", m); }
        rep.exhaustive.push("all 3x3 matrices over {0,1,2}".into());
        for code in 0..65536u32 { let mut m = vec![vec![Scalar::ZERO; 4]; 4];
            for i in 0..4 { for j in 0..4 { m[i][j] = small(((code >> (4 * i + j)) & 1) as u64); } } one(drv, rep, "all-4x4-01", m); }
        rep.exhaustive.push("all 4x4 0/1 matrices".into());
    } else {
        for code in 0..512u32 { let mut m = vec![vec![Scalar::ZERO; 3]; 3];
            for i in 0..3 { for j in 0..3 { m[i][j] = small(((code >> (3 * i + j)) & 1) as u64); } } one(drv, rep, "all-3x3-01", m); }
        rep.exhaustive.push("all 3x3 0/1 matrices".into());
        for _ in 0..300 { let code: u32 = rng.gen_range(0..65536); let mut m = vec![vec![Scalar::ZERO; 4]; 4];
            for i in 0..4 { for j in 0..4 { m[i][j] = small(((code >> (4 * i + j)) & 1) as u64); } } one(drv, rep, "4x4-01", m); }
    }
    // every 1x1 and 2x2 corner
    for v in [0u64, 1, 2] { one(drv, rep, "1x1", vec![vec![small(v)]]); }
    one(drv, rep, "1x1", vec![vec![-Scalar::ONE]]);
    one(drv, rep, "1x1", vec![vec![Scalar::random(&mut rng)]]);
    for code in 0..81u32 { let mut c = code; let mut m = vec![vec![Scalar::ZERO; 2]; 2];
        for i in 0..2 { for j in 0..2 { m[i][j] = small((c % 3) as u64); c /= 3; } } one(drv, rep, "all-2x2-over-012", m); }
    let nmax = if thorough { 8 } else { 6 };
    // n = 7, 8 are expensive in the model (cofactor inverse): one in three of the large sizes is kept

    let count = (if thorough { 2500 } else { 260 }) * o.scale;
    for k in 0..count {
        let n = rng.gen_range(1..=nmax);
        let rnd = |rng: &mut rand_chacha::ChaCha20Rng| Scalar::random(rng);
        let mut m: Vec<Vec<Scalar>> = (0..n).map(|_| (0..n).map(|_| rnd(&mut rng)).collect()).collect();
        let stream = match k % 10 {
            0 => "dense",
            1 => { for r in m.iter_mut() { for x in r.iter_mut() { if rng.gen_bool(0.6) { *x = Scalar::ZERO; } } } "sparse" }
            2 => { for i in 0..n { m[i][i] = Scalar::ZERO; } "zero-diagonal" }
            3 => { // signed permutation matrix: every step needs a row exchange
                let mut p: Vec<usize> = (0..n).collect(); p.shuffle(&mut rng);
                for i in 0..n { for j in 0..n { m[i][j] = if p[i] == j { if rng.gen_bool(0.5) { Scalar::ONE } else { rnd(&mut rng) } } else { Scalar::ZERO }; } }
                "permutation" }
            4 => { // Vandermonde
                let xs: Vec<Scalar> = (0..n).map(|i| if rng.gen_bool(0.5) { small(i as u64 + 1) } else { rnd(&mut rng) }).collect();
                for i in 0..n { for j in 0..n { m[i][j] = xs[i].pow_vartime([j as u64]); } } "vandermonde" }
            5 => { // Birkhoff rows from the real multiplier function
                for i in 0..n { let x = elliptic_curve::NonZeroScalar::<Secp256k1>::new(small(i as u64 / 2 + 1)).unwrap();
                    m[i] = sl_mpc_mate::math::polynomial_coeff_multipliers::<Secp256k1>(&x, i % 2, n); } "birkhoff" }
            6 => { if n >= 2 { let a = rng.gen_range(0..n); let mut b = rng.gen_range(0..n); if a == b { b = (a + 1) % n; } m[b] = m[a].clone(); } "singular-equal-rows" }
            7 => { let c = rng.gen_range(0..n); for r in m.iter_mut() { r[c] = Scalar::ZERO; } "singular-zero-column" }
            8 => { // leading principal minors singular: pivot exchange deep in the elimination
                if n >= 3 { let k = rng.gen_range(1..n - 1); let (a, b) = (m[k - 1].clone(), m[k].clone());
                    for j in 0..=k { m[k][j] = a[j]; } let _ = b; } "singular-leading-minor" }
            _ => { for r in m.iter_mut() { for x in r.iter_mut() { *x = small(rng.next_u32() as u64 % 3); } } "small-entries" }
        };
        one(drv, rep, stream, m);
    }
}
