//! C11, sl-paillier: serde deserialisation of PK2048 / SK2048 / RawCiphertext<U4096> (bincode and serde_json), the
//! operations behind an admitted key, and decrypt / decrypt_fast / add / mul / message of a VALID key on arbitrary
//! ciphertexts / byte strings.
//! Lines: `c11 pai pkbin|skbin|ctbin <bytes>` | `c11 pai pkjson|skjson|ctjson <hex of the text>`
//!        `c11 pai dec|decfast <c>` | `c11 pai add <c1> <c2>` | `c11 pai mul <c> <k>` | `c11 pai message <bytes>`   (numbers: big-endian hex)
use super::{class_of, hexw, unhexw, Cx};
use crypto_bigint::{Encoding, U1024, U2048, U4096};
use rand::{Rng, RngCore};
use rand_chacha::ChaCha20Rng;
use sl_paillier::{RawCiphertext, PK2048, SK2048};
use std::panic::{catch_unwind, AssertUnwindSafe};
use std::rc::Rc;

type Ct = RawCiphertext<{ U4096::LIMBS }>;

/// the two 1024-bit primes of the crate's own tests
const P_HEX: &str = "95779f0de6b61f3db4c53b1b32aa29e2efb52ebedab7968c37cb10917767547963a121d454c8024dc56f22c523da2dff553ad8a1621ad8f0c093ad09561165fce74fdf977ab1b5f57b4cdcce58f449bcce50cd80359ed0ec4083000c091fbb237e52b8237438ea82932ad0ed7d58fae54ea300461755a0dabc41b5e46af4cee1";
const Q_HEX: &str = "a80137484b2e0082dbcc520642ea0fcff5652a2367084c052c340b15f0c3ecfeb334024e28e5a982c8971d06f332fc2e91ca985ee37a8e51daa2bae16841b75617a43b52fecea902c5858276ef3ab5282a0635ef34579d5ea2de61bd56f4d7ec26afbcb8ae127c4bc5c0a5799a48d41565a7656fffa056ac3b73ccb3fd0098d1";

pub struct ValidKey { pub sk: SK2048, pub pk: PK2048, pub n_be: Vec<u8>, pub nn_be: Vec<u8> }
fn valid_key(cx: &mut Cx) -> Rc<ValidKey> {
    if let Some(k) = &cx.pai_key { return k.clone(); }
    let p = U1024::from_be_hex(P_HEX); let q = U1024::from_be_hex(Q_HEX);
    let sk = SK2048::from_pq(&p, &q);
    let pk = sk.public_key();
    let k = Rc::new(ValidKey { n_be: pk.get_n().to_be_bytes().to_vec(), nn_be: pk.get_nn().to_be_bytes().to_vec(), sk, pk });
    cx.pai_key = Some(k.clone());
    k
}
fn trim(b: &[u8]) -> String { let s = hex::encode(b); let t = s.trim_start_matches('0'); if t.is_empty() { "0".into() } else { t.to_string() } }
fn be_fixed(h: &str, len: usize) -> Vec<u8> {
    let v = hex::decode(if h.len() % 2 == 1 { format!("0{h}") } else { h.to_string() }).unwrap_or_default();
    let mut out = vec![0u8; len]; let n = v.len().min(len); out[len - n..].copy_from_slice(&v[v.len() - n..]); out
}
fn ct_of(h: &str) -> Ct { Ct::from_uint(U4096::from_be_slice(&be_fixed(h, 512))) }

/// operations with an ADMITTED (arbitrary odd N) public key: none may panic
fn use_pk(pk: &PK2048, rng_bytes: &[u8]) -> String {
    let r = catch_unwind(AssertUnwindSafe(|| {
        let m = pk.message(&[5u8]).or_else(|| pk.message(&[0u8]));
        let two = U2048::from_u8(2);
        let cts = [Ct::from_uint(U4096::ZERO), Ct::from_uint(U4096::ONE), Ct::from_uint(U4096::MAX), Ct::from_uint(U4096::from_be_slice(&be_fixed(&hex::encode(rng_bytes), 512)))];
        let mut acc = 0u8;
        if let Some(m) = &m {
            let c = pk.encrypt_with_r(m, &two); acc ^= c.to_le_bytes().as_ref()[0];
            for x in &cts { acc ^= pk.add(&c, x).to_le_bytes().as_ref()[0]; acc ^= pk.mul(x, m).to_le_bytes().as_ref()[0]; acc ^= pk.mul_vartime(x, m).to_le_bytes().as_ref()[0]; }
        }
        let _ = pk.message(rng_bytes); let _ = pk.into_message(&U2048::MAX); let _ = pk.get_nn();
        acc
    }));
    if r.is_ok() { "ok".into() } else { "panic".into() }
}
fn use_sk(sk: &SK2048, rng_bytes: &[u8]) -> Vec<(&'static str, String)> {
    let cts = [Ct::from_uint(U4096::ZERO), Ct::from_uint(U4096::ONE), Ct::from_uint(U4096::MAX), Ct::from_uint(U4096::from_be_slice(&be_fixed(&hex::encode(rng_bytes), 512)))];
    let cls = |r: std::thread::Result<u8>| if r.is_ok() { "ok".to_string() } else { "panic".to_string() };
    vec![
        ("decrypt", cls(catch_unwind(AssertUnwindSafe(|| cts.iter().fold(0u8, |a, c| a ^ sk.decrypt(c).to_uint().to_le_bytes()[0]))))),
        ("decrypt_fast", cls(catch_unwind(AssertUnwindSafe(|| cts.iter().fold(0u8, |a, c| a ^ sk.decrypt_fast(c).to_uint().to_le_bytes()[0]))))),
        ("extract_n_root", cls(catch_unwind(AssertUnwindSafe(|| { let ip = sk.extract_n_root_init_params(); sk.extract_n_root(&U2048::from_u8(3), &ip).to_le_bytes()[0] })))),
    ]
}

/// `{"n":"<s>"}`-shaped text with a plain string body: the part the tiny wire model speaks about
fn json_field<'a>(text: &'a [u8], prefix: &str, suffix: &str) -> Option<&'a [u8]> {
    let (p, s) = (prefix.as_bytes(), suffix.as_bytes());
    if text.len() < p.len() + s.len() || !text.starts_with(p) || !text.ends_with(s) { return None; }
    let body = &text[p.len()..text.len() - s.len()];
    if body.iter().any(|c| *c == b'"' || *c == b'\\' || *c < 0x20 || *c >= 0x80) { return None; }
    Some(body)
}

pub fn exec(cx: &mut Cx, line: &str, t: &[&str]) {
    let arg = |i: usize| t.get(i).copied().unwrap_or("-");
    let junk: Vec<u8> = { use sha2::Digest; let d = sha2::Sha256::digest(line.as_bytes()); d.iter().cycle().take(512).cloned().collect() };
    match t[2] {
        "pkbin" | "pkjson" => {
            let data = unhexw(arg(3));
            let bin = t[2] == "pkbin";
            let r = catch_unwind(AssertUnwindSafe(|| if bin { bincode::deserialize::<PK2048>(&data).map_err(|e| e.to_string()) } else { serde_json::from_slice::<PK2048>(&data).map_err(|e| e.to_string()) }));
            let imp = match &r { Ok(Ok(_)) => "ok".to_string(), Ok(Err(e)) => format!("err:{e}"), Err(_) => "panic".into() };
            let model = if bin { Some(format!("c11 pkbin {}", hexw(&data))) } else { json_field(&data, "{\"n\":\"", "\"}").map(|s| format!("c11 pkhex {}", hexw(s))) };
            let said = model.map(|req| { let m = cx.ask(&req); let same = m == class_of(&imp); (req, m, same) });
            let entry = if bin { "pai.pk.bincode" } else { "pai.pk.json" };
            cx.judge(entry, line, &imp, said, class_of(&imp) == "ok");
            if let Ok(Ok(pk)) = r { let u = use_pk(&pk, &junk); cx.judge("pai.pk.use(admitted-key)", line, &u, None, true); }
        }
        "skbin" | "skjson" => {
            let data = unhexw(arg(3));
            let bin = t[2] == "skbin";
            let r = catch_unwind(AssertUnwindSafe(|| if bin { bincode::deserialize::<SK2048>(&data).map_err(|e| e.to_string()) } else { serde_json::from_slice::<SK2048>(&data).map_err(|e| e.to_string()) }));
            let imp = match &r { Ok(Ok(_)) => "ok".to_string(), Ok(Err(e)) => format!("err:{e}"), Err(_) => "panic".into() };
            let model = if bin { Some(format!("c11 skbin {}", hexw(&data))) } else { sk_json_model(&data) };
            let said = model.map(|req| { let m = cx.ask(&req); let same = m == class_of(&imp); (req, m, same) });
            let entry = if bin { "pai.sk.bincode" } else { "pai.sk.json" };
            cx.judge(entry, line, &imp, said, class_of(&imp) == "ok");
            if let Ok(Ok(sk)) = r { for (op, u) in use_sk(&sk, &junk) { cx.judge(&format!("pai.sk.use(admitted-key).{op}"), line, &u, None, true); }
                                    let u = use_pk(&sk.public_key(), &junk); cx.judge("pai.pk.use(admitted-key)", line, &u, None, true); }
        }
        "ctbin" | "ctjson" => {
            let data = unhexw(arg(3));
            let bin = t[2] == "ctbin";
            let r = catch_unwind(AssertUnwindSafe(|| if bin { bincode::deserialize::<Ct>(&data).map_err(|e| e.to_string()) } else { serde_json::from_slice::<Ct>(&data).map_err(|e| e.to_string()) }));
            let imp = match &r { Ok(Ok(_)) => "ok".to_string(), Ok(Err(e)) => format!("err:{e}"), Err(_) => "panic".into() };
            let model = if bin { Some(format!("c11 ctbin {}", hexw(&data))) } else { json_field(&data, "\"", "\"").map(|s| format!("c11 cthex {}", hexw(s))) };
            let said = model.map(|req| { let m = cx.ask(&req); let same = m == class_of(&imp); (req, m, same) });
            cx.judge(if bin { "pai.ct.bincode" } else { "pai.ct.json" }, line, &imp, said, class_of(&imp) == "ok");
            // an admitted ciphertext goes straight into the valid key's operations
            if let Ok(Ok(c)) = r { let h = trim(&c.to_be_bytes().as_ref().to_vec()); for op in ["dec", "decfast"] { let l = format!("c11 pai {op} {h}"); exec(cx, &l, &l.split(' ').collect::<Vec<_>>()); } }
        }
        "dec" | "decfast" | "add" | "mul" => {
            let k = valid_key(cx);
            let pre = format!("1024 {} {}", P_HEX, Q_HEX);
            let (entry, req, imp, deep): (&str, String, String, bool) = match t[2] {
                "dec" => { let c = ct_of(arg(3)); let r = catch_unwind(AssertUnwindSafe(|| k.sk.decrypt(&c)));
                    ("pai.decrypt", format!("pai dec {pre} {}", arg(3)), r.map_or("panic".into(), |m| format!("ok:{}", trim(&m.to_uint().to_be_bytes()))), be_fixed(arg(3), 512) < k.nn_be) }
                "decfast" => { let c = ct_of(arg(3)); let r = catch_unwind(AssertUnwindSafe(|| k.sk.decrypt_fast(&c)));
                    ("pai.decrypt_fast", format!("pai decfast {pre} {}", arg(3)), r.map_or("panic".into(), |m| format!("ok:{}", trim(&m.to_uint().to_be_bytes()))), be_fixed(arg(3), 512) < k.nn_be) }
                "add" => { let (a, b) = (ct_of(arg(3)), ct_of(arg(4))); let r = catch_unwind(AssertUnwindSafe(|| k.pk.add(&a, &b)));
                    ("pai.add", format!("pai add {pre} {} {}", arg(3), arg(4)), r.map_or("panic".into(), |c| format!("ok:{}", trim(c.to_be_bytes().as_ref()))), be_fixed(arg(3), 512) < k.nn_be && be_fixed(arg(4), 512) < k.nn_be) }
                _ => { let c = ct_of(arg(3));
                    // the multiplier is a RawPlaintext: only values below N exist
                    let kk = U2048::from_be_slice(&be_fixed(arg(4), 256));
                    let Some(m) = k.pk.into_message(&kk) else { cx.judge("pai.mul", line, "err:multiplier-not-below-N", None, false); return };
                    let r = catch_unwind(AssertUnwindSafe(|| k.pk.mul(&c, &m)));
                    ("pai.mul", format!("pai mul {pre} {} {}", arg(3), arg(4)), r.map_or("panic".into(), |c| format!("ok:{}", trim(c.to_be_bytes().as_ref()))), be_fixed(arg(3), 512) < k.nn_be) }
            };
            let m = cx.ask(&req);
            let same = imp == format!("ok:{m}");
            cx.judge(entry, line, &imp, Some((req, m, same)), deep);
        }
        "message" => {
            let k = valid_key(cx);
            let data = unhexw(arg(3));
            let r = catch_unwind(AssertUnwindSafe(|| k.pk.message(&data)));
            let imp = match r { Ok(Some(m)) => format!("some:{}", trim(&m.to_uint().to_be_bytes())), Ok(None) => "none".into(), Err(_) => "panic".into() };
            let req = format!("pai message 1024 {} {} {}", P_HEX, Q_HEX, hexw(&data));
            let m = cx.ask(&req);
            let same = imp == m;
            cx.judge("pai.message", line, &imp, Some((req, m, same)), imp.starts_with("some"));
        }
        _ => {}
    }
}

fn sk_json_model(text: &[u8]) -> Option<String> {
    let s = std::str::from_utf8(text).ok()?;
    let body = s.strip_prefix("{\"p\":\"")?.strip_suffix("\"}")?;
    let (a, b) = body.split_once("\",\"q\":\"")?;
    let plain = |x: &str| !x.bytes().any(|c| c == b'"' || c == b'\\' || c < 0x20 || c >= 0x80);
    if !plain(a) || !plain(b) { return None; }
    Some(format!("c11 skhex {} {}", hexw(a.as_bytes()), hexw(b.as_bytes())))
}

// ------------------------------------------------------------------------------------------------ generators
fn le(v: &[u8], len: usize) -> Vec<u8> { let mut o = vec![0u8; len]; for (i, b) in v.iter().rev().enumerate().take(len) { o[i] = *b; } o }   // big-endian value -> little-endian fixed

pub fn generate(cx: &mut Cx, rng: &mut ChaCha20Rng, round: u64) {
    let key = valid_key(cx);
    let (p_be, q_be) = (hex::decode(P_HEX).unwrap(), hex::decode(Q_HEX).unwrap());
    let rnd = |rng: &mut ChaCha20Rng, len: usize| { let mut v = vec![0u8; len]; rng.fill_bytes(&mut v); v };
    // ---------------- public keys: N as a big-endian value
    let mut ns: Vec<(&str, Vec<u8>)> = vec![
        ("N=0", vec![0]), ("N=1", vec![1]), ("N=2", vec![2]), ("N=3", vec![3]), ("N=4", vec![4]), ("N=valid", key.n_be.clone()),
        ("N=2^2048-1", vec![0xff; 256]), ("N=2^2048-2", { let mut v = vec![0xff; 256]; v[255] = 0xfe; v }), ("N=2^2047", { let mut v = vec![0u8; 256]; v[0] = 0x80; v }),
        ("N=2^2047+1", { let mut v = vec![0u8; 256]; v[0] = 0x80; v[255] = 1; v }), ("N=p(prime)", p_be.clone()),
    ];
    { let mut v = key.n_be.clone(); v[255] ^= 1; ns.push(("N=valid+-1(even)", v)); }
    { let mut v = rnd(rng, 256); v[255] |= 1; ns.push(("N=random-odd", v)); }
    { let mut v = rnd(rng, 256); v[255] &= 0xfe; ns.push(("N=random-even", v)); }
    { let mut v = rnd(rng, 8); v[7] |= 1; ns.push(("N=small-odd", v)); }
    for (name, n) in &ns {
        cx.rep.hist(&format!("pai.pk:input:{name}"));
        let b = le(n, 256);
        cx.exec(&format!("c11 pai pkbin {}", hexw(&b)), true);
        let hexs = hex::encode(&b);
        cx.exec(&format!("c11 pai pkjson {}", hexw(format!("{{\"n\":\"{hexs}\"}}").as_bytes())), true);
        if *name == "N=valid" || *name == "N=random-odd" { cx.exec(&format!("c11 pai pkjson {}", hexw(format!("{{\"n\":\"{}\"}}", hexs.to_uppercase()).as_bytes())), true); }
    }
    let valid_le = le(&key.n_be, 256);
    for (name, b) in [("truncated-255", valid_le[..255].to_vec()), ("truncated-1", valid_le[..1].to_vec()), ("empty", vec![]), ("extended+1", { let mut v = valid_le.clone(); v.push(0xff); v }),
                      ("extended+256", { let mut v = valid_le.clone(); v.extend(rnd(rng, 256)); v }), ("random-256", rnd(rng, 256)), ("random-300", rnd(rng, 300)), ("all-00", vec![0u8; 256]), ("all-ff", vec![0xff; 256])] {
        cx.rep.hist(&format!("pai.pk:input:{name}"));
        cx.exec(&format!("c11 pai pkbin {}", hexw(&b)), true);
    }
    let vh = hex::encode(&valid_le);
    let json_texts: Vec<(&str, String)> = vec![
        ("json:odd-length-hex", format!("{{\"n\":\"{}\"}}", &vh[..511])), ("json:513-digits", format!("{{\"n\":\"{}0\"}}", vh)), ("json:empty-string", "{\"n\":\"\"}".into()),
        ("json:non-hex-char", format!("{{\"n\":\"{}g\"}}", &vh[..511])), ("json:mixed-case", format!("{{\"n\":\"{}{}\"}}", vh[..256].to_uppercase(), &vh[256..])),
        ("json:0x-prefix", format!("{{\"n\":\"0x{}\"}}", &vh[..510])), ("json:spaces", format!("{{\"n\":\" {} \"}}", &vh[..510])),
        ("json:number", "{\"n\":12345}".into()), ("json:huge-number", format!("{{\"n\":{}}}", "9".repeat(700))), ("json:null", "{\"n\":null}".into()), ("json:array-of-bytes", format!("{{\"n\":[{}]}}", vec!["1"; 256].join(","))),
        ("json:missing-field", "{}".into()), ("json:other-field", format!("{{\"m\":\"{vh}\"}}")), ("json:extra-field", format!("{{\"n\":\"{vh}\",\"x\":1}}")), ("json:duplicate-field", format!("{{\"n\":\"{vh}\",\"n\":\"{vh}\"}}")),
        ("json:sequence-form", format!("[\"{vh}\"]")), ("json:bare-string", format!("\"{vh}\"")), ("json:truncated", format!("{{\"n\":\"{}", &vh[..100])), ("json:trailing-garbage", format!("{{\"n\":\"{vh}\"}}}}")),
        ("json:nesting-10000", "[".repeat(10000)), ("json:unicode-escape", format!("{{\"n\":\"\\u0030{}\"}}", &vh[1..])), ("json:empty", String::new()), ("json:nul-bytes", "\0\0\0\0".into()),
    ];
    for (name, text) in &json_texts { cx.rep.hist(&format!("pai.pk:input:{name}")); cx.exec(&format!("c11 pai pkjson {}", hexw(text.as_bytes())), true); }
    for len in [1usize, 16, 600] { let b = rnd(rng, len); cx.rep.hist("pai.pk:input:json:random-bytes"); cx.exec(&format!("c11 pai pkjson {}", hexw(&b)), true); }

    // ---------------- secret keys: (p, q) as big-endian values
    let mut pq: Vec<(&str, Vec<u8>, Vec<u8>)> = vec![
        ("pq=valid", p_be.clone(), q_be.clone()), ("pq=swapped", q_be.clone(), p_be.clone()), ("pq=(0,0)", vec![0], vec![0]), ("pq=(1,1)", vec![1], vec![1]), ("pq=(1,q)", vec![1], q_be.clone()),
        ("pq=(p,1)", p_be.clone(), vec![1]), ("pq=(0,q)", vec![0], q_be.clone()), ("pq=(p,0)", p_be.clone(), vec![0]), ("pq=(2,q)", vec![2], q_be.clone()), ("pq=(p,p)", p_be.clone(), p_be.clone()),
        ("pq=(3,5)", vec![3], vec![5]), ("pq=(11,17)", vec![11], vec![17]), ("pq=(max,max)", vec![0xff; 128], vec![0xff; 128]), ("pq=(max,3)", vec![0xff; 128], vec![3]), ("pq=(3,max)", vec![3], vec![0xff; 128]),
        ("pq=(2^1023+1,3)", { let mut v = vec![0u8; 128]; v[0] = 0x80; v[127] = 1; v }, vec![3]), ("pq=(9,15)non-coprime", vec![9], vec![15]),
    ];
    { let mut a = rnd(rng, 128); a[127] |= 1; let mut b = rnd(rng, 128); b[127] |= 1; pq.push(("pq=random-odd", a, b)); }
    { let mut a = rnd(rng, 128); a[127] &= 0xfe; let mut b = rnd(rng, 128); b[127] |= 1; pq.push(("pq=(even,odd)", a, b)); }
    { let mut a = rnd(rng, 128); a[127] |= 1; let mut b = rnd(rng, 128); b[127] &= 0xfe; pq.push(("pq=(odd,even)", a, b)); }
    { let mut a = rnd(rng, 16); a[15] |= 1; let mut b = rnd(rng, 128); b[127] |= 1; pq.push(("pq=(small-odd,odd)", a, b)); }
    for (name, p, q) in &pq {
        cx.rep.hist(&format!("pai.sk:input:{name}"));
        let (pl, ql) = (le(p, 128), le(q, 128));
        let mut b = pl.clone(); b.extend_from_slice(&ql);
        cx.exec(&format!("c11 pai skbin {}", hexw(&b)), true);
        cx.exec(&format!("c11 pai skjson {}", hexw(format!("{{\"p\":\"{}\",\"q\":\"{}\"}}", hex::encode(&pl), hex::encode(&ql)).as_bytes())), true);
    }
    let mut vsk = le(&p_be, 128); vsk.extend(le(&q_be, 128));
    for (name, b) in [("truncated-255", vsk[..255].to_vec()), ("truncated-128", vsk[..128].to_vec()), ("empty", vec![]), ("extended+1", { let mut v = vsk.clone(); v.push(1); v }), ("random-256", rnd(rng, 256)), ("all-00", vec![0u8; 256]), ("all-ff", vec![0xff; 256])] {
        cx.rep.hist(&format!("pai.sk:input:{name}"));
        cx.exec(&format!("c11 pai skbin {}", hexw(&b)), true);
    }
    let (ph, qh) = (hex::encode(le(&p_be, 128)), hex::encode(le(&q_be, 128)));
    for (name, text) in [("json:p-only", format!("{{\"p\":\"{ph}\"}}")), ("json:q-short", format!("{{\"p\":\"{ph}\",\"q\":\"{}\"}}", &qh[..255])), ("json:q-non-hex", format!("{{\"p\":\"{ph}\",\"q\":\"{}zz\"}}", &qh[..254])),
                         ("json:reordered", format!("{{\"q\":\"{qh}\",\"p\":\"{ph}\"}}")), ("json:sequence-form", format!("[\"{ph}\",\"{qh}\"]")), ("json:numbers", "{\"p\":3,\"q\":5}".into()), ("json:truncated", format!("{{\"p\":\"{ph}\",\"q\":")),
                         ("json:public-key-text", format!("{{\"n\":\"{vh}\"}}"))] {
        cx.rep.hist(&format!("pai.sk:input:{name}"));
        cx.exec(&format!("c11 pai skjson {}", hexw(text.as_bytes())), true);
    }

    // ---------------- ciphertexts: wire forms, then the valid key's operations on arbitrary values
    let nn = key.nn_be.clone();
    let hon = { let m = key.pk.message(&[42]).unwrap(); let r = U2048::from_be_slice(&{ let mut v = rnd(rng, 256); v[0] = 0; v }); key.pk.encrypt_with_r(&m, &r).to_be_bytes().as_ref().to_vec() };
    let minus = |v: &[u8], k: u8| { let mut r = v.to_vec(); let mut i = r.len() - 1; let mut borrow = k; loop { let (x, o) = r[i].overflowing_sub(borrow); r[i] = x; if !o { break; } borrow = 1; if i == 0 { break; } i -= 1; } r };
    let plus1 = |v: &[u8]| { let mut r = v.to_vec(); let mut i = r.len() - 1; loop { let (x, o) = r[i].overflowing_add(1); r[i] = x; if !o || i == 0 { break; } i -= 1; } r };
    let n_pad = { let mut v = vec![0u8; 256]; v.extend_from_slice(&key.n_be); v };
    let p_pad = { let mut v = vec![0u8; 384]; v.extend_from_slice(&p_be); v };
    let cts: Vec<(&str, Vec<u8>)> = vec![
        ("c=honest", hon.clone()), ("c=0", vec![0u8; 512]), ("c=1", { let mut v = vec![0u8; 512]; v[511] = 1; v }), ("c=N^2-1", minus(&nn, 1)), ("c=N^2", nn.clone()), ("c=N^2+1", plus1(&nn)),
        ("c=MAX", vec![0xff; 512]), ("c=N(non-unit)", n_pad.clone()), ("c=p(non-unit)", p_pad), ("c=N+1", plus1(&n_pad)), ("c=2^4095", { let mut v = vec![0u8; 512]; v[0] = 0x80; v }),
        ("c=random", rnd(rng, 512)), ("c=random-below-N^2", { let mut v = rnd(rng, 512); v[0] = 0; v[1] = 0; v }),
    ];
    for (name, c) in &cts {
        cx.rep.hist(&format!("pai.ct:input:{name}"));
        let lebytes: Vec<u8> = c.iter().rev().cloned().collect();
        cx.exec(&format!("c11 pai ctbin {}", hexw(&lebytes)), true);                       // runs dec + decfast on the admitted value
        cx.exec(&format!("c11 pai ctjson {}", hexw(format!("\"{}\"", hex::encode(&lebytes)).as_bytes())), true);
        let ch = trim(c);
        cx.exec(&format!("c11 pai add {ch} {}", trim(&cts[(round as usize + 3) % cts.len()].1)), true);
        cx.exec(&format!("c11 pai add {ch} {ch}"), true);
        for k in [vec![0u8], vec![1u8], minus(&key.n_be, 1), { let mut v = rnd(rng, 256); v[0] = 0; v }] { cx.exec(&format!("c11 pai mul {ch} {}", trim(&k)), true); }
    }
    for (name, b) in [("truncated-511", vec![1u8; 511]), ("empty", vec![]), ("extended+1", vec![2u8; 513]), ("random-100", rnd(rng, 100))] {
        cx.rep.hist(&format!("pai.ct:input:{name}"));
        cx.exec(&format!("c11 pai ctbin {}", hexw(&b)), true);
    }
    for (name, text) in [("json:1023-digits", format!("\"{}\"", "a".repeat(1023))), ("json:1025-digits", format!("\"{}\"", "a".repeat(1025))), ("json:non-hex", format!("\"{}\"", "x".repeat(1024))), ("json:number", "7".to_string()), ("json:object", "{\"c\":\"00\"}".to_string())] {
        cx.rep.hist(&format!("pai.ct:input:{name}"));
        cx.exec(&format!("c11 pai ctjson {}", hexw(text.as_bytes())), true);
    }
    // ---------------- message(bytes)
    let n_le = le(&key.n_be, 256);
    let mut msgs: Vec<Vec<u8>> = vec![vec![], vec![0], vec![0xff], n_le.clone(), le(&minus(&key.n_be, 1), 256), vec![0xff; 256], vec![0u8; 256], vec![0u8; 257], { let mut v = vec![0u8; 257]; v[256] = 1; v },
        { let mut v = n_le.clone(); v.extend(vec![0u8; 100]); v }, { let mut v = le(&minus(&key.n_be, 1), 256); v.extend(vec![0u8; 300]); v }, vec![0xff; 1000], rnd(rng, 255), rnd(rng, 256), rnd(rng, 257)];
    for _ in 0..6 { let len = rng.gen_range(0..600); msgs.push(rnd(rng, len)); }
    for m in &msgs { cx.exec(&format!("c11 pai message {}", hexw(m)), true); }
}
