//! C11, sl-oblivious: protocol messages as arbitrary POD bytes.
//! Lines: `c11 pod <struct> <len> <00|ff|rSEED>`                         bytemuck::try_from_bytes on a slice of that length
//!        `c11 eot send <sid> <seed> <EndemicOTMsg1>` | `c11 eot recv <sid> <seed> <EndemicOTMsg2>`
//!        `c11 pprf eval <sid> <seed> <PPRFOutput>`   | `c11 ss send <sid> <seed> <Round1Output>`
//!        `c11 rvole recv <ext|ot> <sid32> <seed> <RVOLEOutput|RVOLEMsg2>` | `c11 rvole send <ext|ot> <sid32> <seed> <Round1Output|RVOLEMsg1>`
//! The honest counter-party, its tapes and the base-OT / all-but-one seeds are regenerated from (sid, seed).
use super::{chacha, class_of, hexw, unhexw, Cx, SECP_Q, be_minus_one, k_enc_value, K_ENC};
use crate::{c05, rng::TapeRng};
use elliptic_curve::ff::Field;
use k256::Scalar;
use rand::{Rng, RngCore};
use rand_chacha::ChaCha20Rng;
use sl_oblivious::{
    endemic_ot::{EndemicOTMsg1, EndemicOTMsg2, EndemicOTReceiver, EndemicOTSender, ReceiverOutput},
    params::consts::*,
    rvole, rvole_ot_variant as otv,
    soft_spoken::{build_pprf, eval_pprf, generate_all_but_one_seed_ot, PPRFOutput, ReceiverExtendedOutput, ReceiverOTSeed, Round1Output, SenderOTSeed, SoftSpokenOTReceiver, SoftSpokenOTSender},
};
use std::panic::{catch_unwind, AssertUnwindSafe};
use std::rc::Rc;

type Key = [u8; 32];
const N: usize = 256;
const OT_MSG: usize = N * 66;
const TREE: usize = 320;
const NT: usize = 64;
const K: usize = 4;
const Q: usize = 16;
const NB: usize = LAMBDA_C_DIV_SOFT_SPOKEN_K;
const U_BYTES: usize = NB * L_PRIME_BYTES;
const R1_BYTES: usize = U_BYTES + S_BYTES + LAMBDA_C * S_BYTES;
const PAD: usize = L_PRIME_BYTES - L_BYTES;
const XI: usize = L;
const A_BYTES: usize = XI * L_BATCH_PLUS_RHO * KAPPA_BYTES;
const CORE_BYTES: usize = A_BYTES + RHO * KAPPA_BYTES + 64;
const EOT_RTAPE: usize = 128 + 512 * 32;

fn bit(bits: &[u8], i: usize) -> usize { ((bits[i >> 3] >> (i & 7)) & 1) as usize }
fn sc_hex(s: &Scalar) -> String { hex::encode(s.to_bytes()) }
fn sc2(v: &[Scalar; 2]) -> String { format!("{},{}", sc_hex(&v[0]), sc_hex(&v[1])) }
fn dup(r: &EndemicOTReceiver) -> Box<EndemicOTReceiver> { Box::new(unsafe { std::ptr::read(r) }) }
fn keys_hex(k: &[(Key, Key)]) -> String { k.iter().map(|(a, b)| format!("{}{}", hex::encode(a), hex::encode(b))).collect() }

// ------------------------------------------------------------------------------------------------ sessions
#[allow(dead_code)]
pub struct EotSess { sid: Vec<u8>, ts: Vec<u8>, recv: Box<EndemicOTReceiver>, pub msg1: Vec<u8>, bits: Key, ta_hex: String, pub msg2: Vec<u8>, skeys: Vec<(Key, Key)>, dks: Vec<Key> }
/// the draws of `EndemicOTReceiver::new` replayed with the same library calls: (choice bits, t_a list)
fn eot_draws(rng: &mut TapeRng) -> (Key, Vec<Scalar>) {
    let bits: Key = rng.gen();
    let ta: Vec<Scalar> = (0..N).map(|_| Scalar::random(&mut *rng)).collect();
    for _ in 0..N { let _ = Scalar::random(&mut *rng); }      // the r_other points
    (bits, ta)
}
fn ta_hex(ta: &[Scalar]) -> String { ta.iter().map(sc_hex).collect::<Vec<_>>().join(",") }

fn get_eot(cx: &mut Cx, sid: &[u8], seed: u64) -> Option<Rc<EotSess>> {
    let ck = format!("{}:{seed}", hexw(sid));
    if let Some(s) = cx.eot.get(&ck) { return Some(s.clone()); }
    let (tr, ts) = c05::tapes(seed, 0);
    let s = catch_unwind(AssertUnwindSafe(|| {
        let mut m1 = EndemicOTMsg1::default(); let mut m2 = EndemicOTMsg2::default();
        let recv = EndemicOTReceiver::new(sid, &mut m1, &mut TapeRng::new(tr.clone()));
        let so = EndemicOTSender::process(sid, &m1, &mut m2, &mut TapeRng::new(ts.clone())).ok()?;
        let (bits, ta) = eot_draws(&mut TapeRng::new(tr.clone()));
        let (b2, dks) = dup(&recv).process(&m2).ok()?.verif_parts();
        if b2 != bits { return None; }
        Some(EotSess { sid: sid.to_vec(), ts, recv: Box::new(recv), msg1: bytemuck::bytes_of(&m1).to_vec(), bits, ta_hex: ta_hex(&ta), msg2: bytemuck::bytes_of(&m2).to_vec(), skeys: so.verif_keys(), dks })
    })).ok().flatten().map(Rc::new);
    match &s { Some(s) => { cx.eot.insert(ck, s.clone()); } None => cx.rep.notes.push("eot: honest session could not be built".into()) }
    s
}

#[allow(dead_code)]
pub struct PprfSess { sid: Vec<u8>, bits: Key, dks: Vec<Key>, pub out: Vec<u8>, ev: String }
fn real_eval(sid: &[u8], bits: &Key, dks: &[Key], out: &[u8]) -> String {
    let r = catch_unwind(AssertUnwindSafe(|| {
        let ro = ReceiverOutput::new(*bits, dks.to_vec().try_into().unwrap());
        let out: Box<PPRFOutput> = Box::new(bytemuck::pod_read_unaligned(out));
        let mut rs = Box::new(ReceiverOTSeed::default());
        match eval_pprf(sid, &ro, &out, &mut rs) { Ok(()) => { let by = bytemuck::bytes_of(&*rs); format!("ok:{}:{}", hex::encode(&by[..NT]), hex::encode(&by[NT..])) } Err(_) => "err".into() }
    }));
    r.unwrap_or_else(|_| "panic".into())
}
fn get_pprf(cx: &mut Cx, sid: &[u8], seed: u64) -> Option<Rc<PprfSess>> {
    let ck = format!("{}:{seed}", hexw(sid));
    if let Some(s) = cx.pprf.get(&ck) { return Some(s.clone()); }
    let e = get_eot(cx, sid, seed)?;
    let out = catch_unwind(AssertUnwindSafe(|| {
        let so = sl_oblivious::endemic_ot::SenderOutput::verif_new(&e.skeys);
        let mut seed_s = Box::new(SenderOTSeed::default());
        let mut out = Box::new(PPRFOutput::default());
        build_pprf(sid, &so, &mut seed_s, &mut out);
        bytemuck::bytes_of(&*out).to_vec()
    })).ok()?;
    let ev = real_eval(sid, &e.bits, &e.dks, &out);
    let s = Rc::new(PprfSess { sid: sid.to_vec(), bits: e.bits, dks: e.dks.clone(), out, ev });
    cx.pprf.insert(ck, s.clone());
    Some(s)
}

#[allow(dead_code)]
pub struct SsSess { sid: Vec<u8>, s: Box<SenderOTSeed>, r: Box<ReceiverOTSeed>, choices: [u8; L_BYTES], tape: Vec<u8>, pub r1: Vec<u8> }
fn get_ss(cx: &mut Cx, sid: &[u8], seed: u64) -> Option<Rc<SsSess>> {
    let ck = format!("{}:{seed}", hexw(sid));
    if let Some(s) = cx.ss.get(&ck) { return Some(s.clone()); }
    let mut rng = chacha(seed, b"c11s");
    let (s, r) = generate_all_but_one_seed_ot(&mut rng);
    let (s, r) = (Box::new(s), Box::new(r));
    let mut choices = [0u8; L_BYTES]; rng.fill_bytes(&mut choices);
    let mut tape = vec![0u8; PAD + 8]; rng.fill_bytes(&mut tape);
    let r1 = catch_unwind(AssertUnwindSafe(|| {
        let mut round1 = Round1Output::default();
        let mut ext = bytemuck::allocation::zeroed_box::<ReceiverExtendedOutput>();
        ext.choices = choices;
        SoftSpokenOTReceiver::process(sid, &s, &mut round1, &mut ext, &mut TapeRng::new(tape.clone()));
        bytemuck::bytes_of(&round1).to_vec()
    })).ok()?;
    let sess = Rc::new(SsSess { sid: sid.to_vec(), s, r, choices, tape, r1 });
    cx.ss.insert(ck, sess.clone());
    Some(sess)
}

#[allow(dead_code)]
pub struct RvSess {
    ot: bool, sid: [u8; 32], a: [Scalar; 2], tape_s: Vec<u8>, seeds: Option<(Box<SenderOTSeed>, Box<ReceiverOTSeed>)>,
    /// round-one message: ext `Round1Output`, ot `RVOLEMsg1`
    pub m1: Vec<u8>, ext: Option<Box<rvole::RVOLEReceiver>>, otr: Option<(Box<otv::RVOLEReceiver>, Box<EndemicOTReceiver>, Box<EndemicOTReceiver>)>,
    /// the receiver's state as the model wants it
    mstate: String, beta: Vec<u8>, pub msg2: Vec<u8>,
}
fn a_of(seed: u64) -> [Scalar; 2] {
    match seed % 4 { 0 => [Scalar::ZERO, Scalar::ZERO], 1 => [-Scalar::ONE, Scalar::ONE], _ => { let mut r = chacha(seed, b"c11a"); [Scalar::random(&mut r), Scalar::random(&mut r)] } }
}
fn get_rv(cx: &mut Cx, ot: bool, sid: &[u8; 32], seed: u64) -> Option<Rc<RvSess>> {
    let ck = format!("{}:{}:{seed}", ot, hex::encode(sid));
    if let Some(s) = cx.rv.get(&ck) { return Some(s.clone()); }
    let a = a_of(seed);
    let mut rng = chacha(seed, b"c11v");
    let s = catch_unwind(AssertUnwindSafe(|| {
        if !ot {
            let (s, r) = generate_all_but_one_seed_ot(&mut chacha(seed, b"c11w"));
            let (s, r) = (Box::new(s), Box::new(r));
            let mut tr = vec![0u8; L_BYTES + PAD + 8]; rng.fill_bytes(&mut tr);
            let mut ts = vec![0u8; 64 * RHO + 8]; rng.fill_bytes(&mut ts);
            let mut r1 = Box::new(Round1Output::default());
            let (st, _b) = rvole::RVOLEReceiver::new(*sid, &s, &mut r1, &mut TapeRng::new(tr));
            let mut out = Box::new(rvole::RVOLEOutput::default());
            rvole::RVOLESender::process(sid, &r, &a, &r1, &mut out, &mut TapeRng::new(ts.clone())).ok()?;
            let sb = bytemuck::bytes_of(&*st).to_vec();
            let beta = sb[32..32 + L_BYTES].to_vec();
            let mstate = format!("{} {}", hex::encode(&beta), hex::encode(&sb[32 + 2 * L_BYTES..]));
            Some(RvSess { ot, sid: *sid, a, tape_s: ts, seeds: Some((s, r)), m1: bytemuck::bytes_of(&*r1).to_vec(), ext: Some(st), otr: None, mstate, beta, msg2: bytemuck::bytes_of(&*out).to_vec() })
        } else {
            let mut tr = vec![0u8; 2 * EOT_RTAPE + 1024]; rng.fill_bytes(&mut tr);
            let mut ts = vec![0u8; 2 * 512 * 32 + 64 * RHO + 1024]; rng.fill_bytes(&mut ts);
            let mut m1 = Box::new(otv::RVOLEMsg1::default());
            let (st, ra, rb, _b) = otv::RVOLEReceiver::new(*sid, &mut m1, &mut TapeRng::new(tr.clone()));
            let mut draw = TapeRng::new(tr);
            let (_, ta_a) = eot_draws(&mut draw); let (_, ta_b) = eot_draws(&mut draw);
            let mut out = Box::new(otv::RVOLEMsg2::default());
            otv::RVOLESender::process(sid, &a, &m1, &mut out, &mut TapeRng::new(ts.clone())).ok()?;
            let beta = bytemuck::bytes_of(&*st)[32..32 + L_BYTES].to_vec();
            let mstate = format!("{} {} {}", hex::encode(&beta), ta_hex(&ta_a), ta_hex(&ta_b));
            Some(RvSess { ot, sid: *sid, a, tape_s: ts, seeds: None, m1: bytemuck::bytes_of(&*m1).to_vec(), ext: None, otr: Some((st, ra, rb)), mstate, beta, msg2: bytemuck::bytes_of(&*out).to_vec() })
        }
    })).ok().flatten().map(Rc::new);
    match &s { Some(s) => { cx.rv.insert(ck, s.clone()); } None => cx.rep.notes.push(format!("rvole: honest {} session could not be built", if ot { "ot" } else { "ext" })) }
    s
}

/// another VALID round-one message of the OT extension for the same seeds: other choice bits, other padding tape
fn alt_r1(sid: &[u8], s: &SenderOTSeed, choices: [u8; L_BYTES], tape: Vec<u8>) -> Option<Vec<u8>> {
    catch_unwind(AssertUnwindSafe(|| {
        let mut round1 = Round1Output::default();
        let mut ext = bytemuck::allocation::zeroed_box::<ReceiverExtendedOutput>();
        ext.choices = choices;
        SoftSpokenOTReceiver::process(sid, s, &mut round1, &mut ext, &mut TapeRng::new(tape));
        bytemuck::bytes_of(&round1).to_vec()
    })).ok()
}
/// another VALID round-two message for the receiver of session `s`: the honest sender with other inputs / another tape
fn alt_msg2(s: &RvSess, a: [Scalar; 2], tape: Vec<u8>) -> Option<Vec<u8>> {
    catch_unwind(AssertUnwindSafe(|| {
        let mut rng = TapeRng::new(tape);
        if !s.ot {
            let m: Box<Round1Output> = Box::new(bytemuck::pod_read_unaligned(&s.m1));
            let mut out = Box::new(rvole::RVOLEOutput::default());
            rvole::RVOLESender::process(&s.sid, &s.seeds.as_ref()?.1, &a, &m, &mut out, &mut rng).ok()?;
            Some(bytemuck::bytes_of(&*out).to_vec())
        } else {
            let m: Box<otv::RVOLEMsg1> = Box::new(bytemuck::pod_read_unaligned(&s.m1));
            let mut out = Box::new(otv::RVOLEMsg2::default());
            otv::RVOLESender::process(&s.sid, &a, &m, &mut out, &mut rng).ok()?;
            Some(bytemuck::bytes_of(&*out).to_vec())
        }
    })).ok().flatten()
}
/// another VALID round-one message for the sender of session `s` (extension variant): a receiver with another tape
fn alt_round1_ext(s: &RvSess, tape: Vec<u8>) -> Option<Vec<u8>> {
    catch_unwind(AssertUnwindSafe(|| {
        let mut r1 = Box::new(Round1Output::default());
        let _ = rvole::RVOLEReceiver::new(s.sid, &s.seeds.as_ref()?.0, &mut r1, &mut TapeRng::new(tape));
        Some(bytemuck::bytes_of(&*r1).to_vec())
    })).ok().flatten()
}

// ------------------------------------------------------------------------------------------------ exec
pub fn exec(cx: &mut Cx, line: &str, t: &[&str], model: bool) {
    match (t[1], t[2]) {
        ("pod", name) if t.len() == 5 => {
            let Ok(len) = t[3].parse::<usize>() else { return };
            let mut buf = vec![0u8; len];
            match t[4] { "00" => {} "ff" => buf.iter_mut().for_each(|b| *b = 0xff), s => { chacha(s.trim_start_matches('r').parse().unwrap_or(0), b"c11p").fill_bytes(&mut buf); } }
            macro_rules! pod { ($ty:ty) => {{ let r = catch_unwind(AssertUnwindSafe(|| bytemuck::try_from_bytes::<$ty>(&buf).map(|_| ()).map_err(|e| format!("{e:?}"))));
                (std::mem::size_of::<$ty>(), match r { Ok(Ok(())) => "ok".to_string(), Ok(Err(e)) => format!("err:{e}"), Err(_) => "panic".into() }) }} }
            let (size, imp) = match name {
                "EndemicOTMsg1" => pod!(EndemicOTMsg1), "EndemicOTMsg2" => pod!(EndemicOTMsg2), "PPRFOutput" => pod!(PPRFOutput), "Round1Output" => pod!(Round1Output),
                "RVOLEOutput" => pod!(rvole::RVOLEOutput), "RVOLEMsg1" => pod!(otv::RVOLEMsg1), "RVOLEMsg2" => pod!(otv::RVOLEMsg2), _ => return };
            let req = format!("c11 pod {size} {len}");
            let m = cx.ask(&req);
            let same = m == class_of(&imp);
            cx.judge("pod.try_from_bytes", line, &imp, Some((req, m, same)), class_of(&imp) == "ok");
        }
        ("eot", "send") if t.len() == 6 => {
            let (sid, msg1) = (unhexw(t[3]), unhexw(t[5]));
            let Ok(seed) = t[4].parse::<u64>() else { return };
            if msg1.len() != OT_MSG { return; }
            let Some(s) = get_eot(cx, &sid, seed) else { return };
            let r = catch_unwind(AssertUnwindSafe(|| {
                let mut rng = TapeRng::new(s.ts.clone());
                let m1: EndemicOTMsg1 = bytemuck::pod_read_unaligned(&msg1);
                let mut m2 = EndemicOTMsg2::default();
                let r = EndemicOTSender::process(&sid, &m1, &mut m2, &mut rng);
                match r { Ok(o) => format!("ok:{}:{}:{}", hex::encode(bytemuck::bytes_of(&m2)), keys_hex(&o.verif_keys()), rng.used), Err(_) => format!("err:{}:{}", hex::encode(bytemuck::bytes_of(&m2)), rng.used) }
            }));
            let imp = r.unwrap_or_else(|_| "panic".into());
            let said = if model { let req = format!("eot send {} {} {}", hexw(&sid), hex::encode(&msg1), hex::encode(&s.ts)); let m = cx.ask(&req); let same = m == imp; Some((req, m, same)) } else { None };
            cx.judge("eot.sender.process", line, &imp, said, class_of(&imp) == "ok");
        }
        ("eot", "recv") if t.len() == 6 => {
            let (sid, msg2) = (unhexw(t[3]), unhexw(t[5]));
            let Ok(seed) = t[4].parse::<u64>() else { return };
            if msg2.len() != OT_MSG { return; }
            let Some(s) = get_eot(cx, &sid, seed) else { return };
            let r = catch_unwind(AssertUnwindSafe(|| {
                let m2: EndemicOTMsg2 = bytemuck::pod_read_unaligned(&msg2);
                match dup(&s.recv).process(&m2) { Ok(o) => format!("ok:{}", o.verif_parts().1.iter().map(hex::encode).collect::<String>()), Err(_) => "err".into() }
            }));
            let imp = r.unwrap_or_else(|_| "panic".into());
            let said = if model { let req = format!("eot recvproc {} {} {}", hex::encode(s.bits), s.ta_hex, hex::encode(&msg2)); let m = cx.ask(&req); let same = m == imp; Some((req, m, same)) } else { None };
            cx.judge("eot.receiver.process", line, &imp, said, class_of(&imp) == "ok");
        }
        ("pprf", "eval") if t.len() == 6 => {
            let (sid, out) = (unhexw(t[3]), unhexw(t[5]));
            let Ok(seed) = t[4].parse::<u64>() else { return };
            if out.len() != NT * TREE { return; }
            let Some(s) = get_pprf(cx, &sid, seed) else { return };
            let imp = real_eval(&sid, &s.bits, &s.dks, &out);
            let differing: Vec<usize> = (0..NT).filter(|j| out[j * TREE..(j + 1) * TREE] != s.out[j * TREE..(j + 1) * TREE]).collect();
            let said = if differing.len() == 1 && s.ev.starts_with("ok") {
                // only tree j differs from an accepted message: the verdict is that of tree j (cheap single-tree model call)
                let j = differing[0];
                let pat: usize = (0..K).map(|i| bit(&s.bits, j * K + i) << i).sum();
                let req = format!("pprf evaltree {} {} {} {}", hexw(&sid), pat, s.dks[j * K..(j + 1) * K].iter().map(hex::encode).collect::<String>(), hex::encode(&out[j * TREE..(j + 1) * TREE]));
                let m = cx.ask(&req);
                let want = if imp.starts_with("ok:") { let f: Vec<&str> = imp.split(':').collect(); let c = u8::from_str_radix(&f[1][2 * j..2 * j + 2], 16).unwrap_or(255); format!("ok:{}:{}", c, &f[2][j * Q * 64..(j + 1) * Q * 64]) } else { imp.clone() };
                let same = m == want;
                Some((req, m, same))
            } else if model {
                let req = format!("pprf eval {} {} {} {}", hexw(&sid), hex::encode(s.bits), s.dks.iter().map(hex::encode).collect::<String>(), hex::encode(&out));
                let m = cx.ask(&req); let same = m == imp; Some((req, m, same))
            } else { None };
            cx.judge("pprf.eval_pprf", line, &imp, said, class_of(&imp) == "ok");
        }
        ("ss", "send") if t.len() == 6 => {
            let (sid, r1) = (unhexw(t[3]), unhexw(t[5]));
            let Ok(seed) = t[4].parse::<u64>() else { return };
            if r1.len() != R1_BYTES { return; }
            let Some(s) = get_ss(cx, &sid, seed) else { return };
            let r = catch_unwind(AssertUnwindSafe(|| {
                let msg: Round1Output = bytemuck::pod_read_unaligned(&r1);
                match SoftSpokenOTSender::process(&sid, &s.r, &msg) { Ok(so) => format!("ok:{}", hex::encode(bytemuck::bytes_of(&*so))), Err(_) => "ban".into() }
            }));
            let imp = r.unwrap_or_else(|_| "panic".into());
            let said = if model {
                let req = format!("ss send {} {} {} {}", hexw(&sid), hex::encode(s.r.random_choices), hex::encode(bytemuck::bytes_of(&s.r.otp_dec_keys)), hex::encode(&r1));
                let m = cx.ask(&req); let same = m == imp; Some((req, m, same)) } else { None };
            cx.judge("ss.sender.process", line, &imp, said, class_of(&imp) == "ok");
        }
        ("rvole", "recv") if t.len() == 7 => {
            let ot = t[3] == "ot";
            let Ok(sid) = <[u8; 32]>::try_from(unhexw(t[4])) else { return };
            let Ok(seed) = t[5].parse::<u64>() else { return };
            let msg = unhexw(t[6]);
            if msg.len() != CORE_BYTES + if ot { 2 * OT_MSG } else { 0 } { return; }
            let Some(s) = get_rv(cx, ot, &sid, seed) else { return };
            let r = catch_unwind(AssertUnwindSafe(|| {
                let res = if let Some(st) = &s.ext { let m: Box<rvole::RVOLEOutput> = Box::new(bytemuck::pod_read_unaligned(&msg)); st.process(&m).map_err(|e| e.to_string()) }
                          else { let (st, ra, rb) = s.otr.as_ref().unwrap(); let m: Box<otv::RVOLEMsg2> = Box::new(bytemuck::pod_read_unaligned(&msg)); st.process(&m, dup(ra), dup(rb)).map_err(|e| e.to_string()) };
                match res { Ok(d) => format!("ok:{}", sc2(&d)), Err(e) => format!("err:{}", e.replace(' ', "_")) }
            }));
            let imp = r.unwrap_or_else(|_| "panic".into());
            let said = if model { let req = format!("rvole {} {} {} {}", if ot { "otrecvproc" } else { "recvproc" }, hex::encode(sid), s.mstate, hex::encode(&msg)); let m = cx.ask(&req); let same = m == imp; Some((req, m, same)) } else { None };
            cx.judge(if ot { "rvole-ot.receiver.process" } else { "rvole.receiver.process" }, line, &imp, said, class_of(&imp) == "ok");
        }
        ("rvole", "send") if t.len() == 7 => {
            let ot = t[3] == "ot";
            let Ok(sid) = <[u8; 32]>::try_from(unhexw(t[4])) else { return };
            let Ok(seed) = t[5].parse::<u64>() else { return };
            let m1 = unhexw(t[6]);
            if m1.len() != if ot { 2 * OT_MSG } else { R1_BYTES } { return; }
            let Some(s) = get_rv(cx, ot, &sid, seed) else { return };
            let a_s = sc2(&s.a);
            let r = catch_unwind(AssertUnwindSafe(|| {
                let mut rng = TapeRng::new(s.tape_s.clone());
                if !ot {
                    let m: Box<Round1Output> = Box::new(bytemuck::pod_read_unaligned(&m1));
                    let mut out = Box::new(rvole::RVOLEOutput::default());
                    match rvole::RVOLESender::process(&sid, &s.seeds.as_ref().unwrap().1, &s.a, &m, &mut out, &mut rng) {
                        Ok(c) => format!("ok:{}:{}:{}", sc2(&c), hex::encode(bytemuck::bytes_of(&*out)), rng.used), Err(_) => "ban".into() }
                } else {
                    let m: Box<otv::RVOLEMsg1> = Box::new(bytemuck::pod_read_unaligned(&m1));
                    let mut out = Box::new(otv::RVOLEMsg2::default());
                    let r = otv::RVOLESender::process(&sid, &s.a, &m, &mut out, &mut rng).map_err(|e| e.to_string());
                    match r { Ok(c) => format!("ok:{}:{}:{}", sc2(&c), hex::encode(bytemuck::bytes_of(&*out)), rng.used), Err(e) => format!("err:{}:{}:{}", e.replace(' ', "_"), hex::encode(bytemuck::bytes_of(&*out)), rng.used) }
                }
            }));
            let imp = r.unwrap_or_else(|_| "panic".into());
            let said = if model {
                let req = if !ot { let (_, rs) = s.seeds.as_ref().unwrap(); format!("rvole send {} {} {} {} {} {}", hex::encode(sid), hex::encode(rs.random_choices), hex::encode(bytemuck::bytes_of(&rs.otp_dec_keys)), a_s, hex::encode(&m1), hex::encode(&s.tape_s)) }
                          else { format!("rvole otsend {} {} {} {}", hex::encode(sid), a_s, hex::encode(&m1), hex::encode(&s.tape_s)) };
                let m = cx.ask(&req); let same = m == imp; Some((req, m, same)) } else { None };
            cx.judge(if ot { "rvole-ot.sender.process" } else { "rvole.sender.process" }, line, &imp, said, class_of(&imp) == "ok");
        }
        _ => {}
    }
}

// ------------------------------------------------------------------------------------------------ generators
fn scalar_boundaries() -> Vec<(&'static str, [u8; 32])> {
    vec![("scalar=0", [0u8; 32]), ("scalar=q-1", be_minus_one(&SECP_Q)), ("scalar=q", SECP_Q), ("scalar=2^256-1", [0xff; 32])]
}
/// mutations of one base-OT message (256 x [point; 2]); `slot_of(k)` = which of the two points of instance k to hit first
fn ot_msg_mutations(rng: &mut ChaCha20Rng, honest: &[u8], slot_of: &dyn Fn(usize) -> usize) -> Vec<(String, Vec<u8>, bool)> {
    let mut v: Vec<(String, Vec<u8>, bool)> = vec![("valid".into(), honest.to_vec(), true)];
    let mut r = vec![0u8; OT_MSG]; rng.fill_bytes(&mut r); v.push(("random".into(), r, true));
    v.push(("all-00(identity)".into(), vec![0u8; OT_MSG], true));
    v.push(("all-ff".into(), vec![0xff; OT_MSG], true));
    for (vi, val) in K_ENC.iter().enumerate() {
        for which in 0..2 {
            let k = [0usize, N - 1, rng.gen_range(1..N - 1)][(vi + which) % 3];
            let slot = if which == 0 { slot_of(k) } else { 1 - slot_of(k) };
            let off = 66 * k + 33 * slot;
            let mut m = honest.to_vec(); let e = k_enc_value(val, &honest[off..off + 33]); m[off..off + 33].copy_from_slice(&e);
            v.push((format!("point:{val}:{}", if which == 0 { "first" } else { "second" }), m, which == 0 && matches!(*val, "identity" | "compact05" | "off-curve" | "x>=p")));
        }
    }
    { let mut m = honest.to_vec(); for k in 0..N { for s in 0..2 { let o = 66 * k + 33 * s; if m[o] == 2 || m[o] == 3 { m[o] = 5; } } } v.push(("every-point:compact05".into(), m, false)); }
    { let g = k_enc_value("generator", &honest[..33]); let mut m = vec![]; for _ in 0..2 * N { m.extend_from_slice(&g); } v.push(("every-point:generator".into(), m, false)); }
    { let mut m = honest.to_vec(); for k in 0..N { let (a, b) = (honest[66 * k..66 * k + 33].to_vec(), honest[66 * k + 33..66 * k + 66].to_vec()); m[66 * k..66 * k + 33].copy_from_slice(&b); m[66 * k + 33..66 * k + 66].copy_from_slice(&a); } v.push(("slots-swapped".into(), m, false)); }
    { let mut m = honest.to_vec(); for k in 0..N { for s in 0..2 { m[66 * k + 33 * s] = rng.gen(); } } v.push(("random-tags-valid-x".into(), m, false)); }
    { let mut m = honest.to_vec(); let p = rng.gen_range(0..OT_MSG * 8); m[p / 8] ^= 1 << (p % 8); v.push(("bitflip".into(), m, false)); }
    v
}
fn r1_mutations(rng: &mut ChaCha20Rng, r1: &[u8]) -> Vec<(String, Vec<u8>, bool)> {
    let xo = U_BYTES; let to = U_BYTES + S_BYTES;
    let mut v: Vec<(String, Vec<u8>, bool)> = vec![("valid".into(), r1.to_vec(), true)];
    let mut r = vec![0u8; R1_BYTES]; rng.fill_bytes(&mut r); v.push(("random".into(), r, true));
    v.push(("all-00".into(), vec![0u8; R1_BYTES], true));
    v.push(("all-ff".into(), vec![0xff; R1_BYTES], false));
    for (name, range) in [("u-row", { let i = rng.gen_range(0..NB); i * L_PRIME_BYTES..(i + 1) * L_PRIME_BYTES }), ("x", xo..to), ("t-row", { let i = rng.gen_range(0..LAMBDA_C); to + i * S_BYTES..to + (i + 1) * S_BYTES })] {
        let mut m = r1.to_vec(); m[range.clone()].iter_mut().for_each(|b| *b = 0); v.push((format!("zero:{name}"), m, name == "x"));
        let mut m = r1.to_vec(); m[range].iter_mut().for_each(|b| *b = 0xff); v.push((format!("ff:{name}"), m, false));
    }
    { let mut m = r1.to_vec(); m[to..].rotate_left(S_BYTES); v.push(("rotate:t-rows".into(), m, false)); }
    { let mut m = r1.to_vec(); m[..U_BYTES].rotate_left(1); v.push(("shift:u-by-one-byte".into(), m, false)); }
    { let mut m = r1.to_vec(); let p = rng.gen_range(0..R1_BYTES * 8); m[p / 8] ^= 1 << (p % 8); v.push(("bitflip".into(), m, true)); }
    // bit flips in the padding bits of u rows do not exist: every bit of u is hashed; the last t row
    { let mut m = r1.to_vec(); let l = m.len(); m[l - 1] ^= 0x80; v.push(("bitflip:last-bit".into(), m, false)); }
    v
}
fn core_mutations(rng: &mut ChaCha20Rng, msg: &[u8], off: usize, other: &[u8]) -> Vec<(String, Vec<u8>, bool)> {
    let mut v: Vec<(String, Vec<u8>, bool)> = vec![];
    let row = L_BATCH_PLUS_RHO * KAPPA_BYTES;
    for (bi, (name, enc)) in scalar_boundaries().into_iter().enumerate() {
        let j = [0usize, XI - 1, rng.gen_range(1..XI - 1), rng.gen_range(1..XI - 1)][bi % 4]; let i = bi % L_BATCH_PLUS_RHO;
        let mut m = msg.to_vec(); let o = off + j * row + i * KAPPA_BYTES; m[o..o + 32].copy_from_slice(&enc); v.push((format!("a_tilde:{name}"), m, true));
        let mut m = msg.to_vec(); let o = off + A_BYTES; m[o..o + 32].copy_from_slice(&enc); v.push((format!("eta:{name}"), m, bi % 2 == 0));
    }
    { let mut m = msg.to_vec(); for b in m[off..off + A_BYTES].iter_mut() { *b = 0xff; } v.push(("a_tilde:all-ff".into(), m, true)); }
    { let mut m = msg.to_vec(); let l = m.len(); for b in m[l - 64..].iter_mut() { *b = 0; } v.push(("mu_hash=0".into(), m, true)); }
    { let mut m = msg.to_vec(); let l = m.len(); m[l - 1] ^= 1; v.push(("mu_hash:bitflip".into(), m, false)); }
    { let mut m = msg.to_vec(); let (j1, j2) = (rng.gen_range(0..XI), rng.gen_range(0..XI)); let a = msg[off + j1 * row..off + (j1 + 1) * row].to_vec(); let b = msg[off + j2 * row..off + (j2 + 1) * row].to_vec();
      m[off + j1 * row..off + (j1 + 1) * row].copy_from_slice(&b); m[off + j2 * row..off + (j2 + 1) * row].copy_from_slice(&a); v.push(("a_tilde:rows-swapped".into(), m, false)); }
    { let mut m = msg.to_vec(); let l = m.len(); m[l - 96..].copy_from_slice(&other[other.len() - 96..]); v.push(("splice:eta+mu_hash-of-another-session".into(), m, true)); }
    { let mut m = msg.to_vec(); m[off..off + A_BYTES].copy_from_slice(&other[off..off + A_BYTES]); v.push(("splice:a_tilde-of-another-session".into(), m, false)); }
    v
}

pub fn generate(cx: &mut Cx, rng: &mut ChaCha20Rng, round: u64) {
    let thorough = cx.thorough;
    // ---------------- wrong lengths are the caller's try_from_bytes
    for name in ["EndemicOTMsg1", "EndemicOTMsg2", "PPRFOutput", "Round1Output", "RVOLEOutput", "RVOLEMsg1", "RVOLEMsg2"] {
        let size = match name { "EndemicOTMsg1" | "EndemicOTMsg2" => OT_MSG, "PPRFOutput" => NT * TREE, "Round1Output" => R1_BYTES, "RVOLEOutput" => CORE_BYTES, "RVOLEMsg1" => 2 * OT_MSG, _ => 2 * OT_MSG + CORE_BYTES };
        for (k, len) in [0usize, 1, size - 1, size, size + 1, 2 * size, rng.gen_range(2..size - 1)].into_iter().enumerate() {
            cx.exec(&format!("c11 pod {name} {len} {}", ["00", "ff", "r1", "r2"][(k + round as usize) % 4]), true);
        }
    }
    let sid_len = [32usize, 0, 1, 200][(round % 4) as usize];
    let sid: Vec<u8> = (0..sid_len).map(|_| rng.gen()).collect();
    let sh = hexw(&sid);
    let seed = rng.next_u64() >> 1; let seed2 = rng.next_u64() >> 1;
    // ---------------- Endemic base OT
    if let Some(s) = get_eot(cx, &sid, seed) {
        for (name, m, model) in ot_msg_mutations(rng, &s.msg1, &|_| 0) { cx.rep.hist(&format!("eot.sender:input:{name}")); cx.exec(&format!("c11 eot send {sh} {seed} {}", hex::encode(&m)), model || thorough && round % 5 == 0); }
        // ORACLE-RELATIVE message 1: the peer can evaluate the public random oracle, so it can send r_0 = -H_0(k, sid, r_1) (or the
        // mirror image): both points are ordinary encodings, their combination r_0 + H_0(r_1) is the identity
        for (k, side) in [(0usize, 0usize), (255, 1), (round as usize % 256, (round % 2) as usize)] {
            let (o_this, o_other) = (66 * k + 33 * side, 66 * k + 33 * (1 - side));
            let other = s.msg1[o_other..o_other + 33].to_vec();
            let h = cx.ask(&format!("eot h {side} {k} {sh} {}", hex::encode(&other)));
            if let Ok(mut hb) = hex::decode(&h) {
                if hb.len() == 33 && (hb[0] == 2 || hb[0] == 3) {
                    hb[0] ^= 1;                                    // -H: the other y coordinate
                    let mut m = s.msg1.clone(); m[o_this..o_this + 33].copy_from_slice(&hb);
                    cx.rep.hist("eot.sender:input:oracle-relative(r_side = -H(r_other))");
                    cx.exec(&format!("c11 eot send {sh} {seed} {}", hex::encode(&m)), true);
                }
            }
        }
        let bits = s.bits;
        for (name, m, model) in ot_msg_mutations(rng, &s.msg2, &|k| bit(&bits, k)) { cx.rep.hist(&format!("eot.receiver:input:{}", name.replace(":first", ":chosen-slot").replace(":second", ":other-slot"))); cx.exec(&format!("c11 eot recv {sh} {seed} {}", hex::encode(&m)), model || thorough && round % 5 == 0); }
    }
    // ---------------- all-but-one PPRF
    if let (Some(s), Some(o)) = (get_pprf(cx, &sid, seed), get_pprf(cx, &sid, seed2)) {
        let mut cases: Vec<(String, Vec<u8>, bool)> = vec![("valid".into(), s.out.clone(), true)];
        let mut r = vec![0u8; NT * TREE]; rng.fill_bytes(&mut r); cases.push(("random".into(), r, true));
        cases.push(("all-00".into(), vec![0u8; NT * TREE], true)); cases.push(("all-ff".into(), vec![0xff; NT * TREE], true));
        cases.push(("replay:other-base-OT".into(), o.out.clone(), true));
        for j in [0usize, NT - 1, rng.gen_range(1..NT - 1)] {
            for (fname, lo, hi) in [("t[0]", 0usize, 64usize), ("t[1]", 64, 128), ("t[2]", 128, 192), ("s_tilda", 192, 256), ("t_tilda", 256, 320)] {
                for _ in 0..2 { let mut m = s.out.clone(); let p = rng.gen_range(lo * 8..hi * 8); m[j * TREE + p / 8] ^= 1 << (p % 8); cases.push((format!("bitflip:{fname}"), m, false)); }
            }
            let mut m = s.out.clone(); m[j * TREE..(j + 1) * TREE].copy_from_slice(&o.out[j * TREE..(j + 1) * TREE]); cases.push(("splice:tree-of-another-session".into(), m, false));
            let mut m = s.out.clone(); for b in m[j * TREE..(j + 1) * TREE].iter_mut() { *b = 0; } cases.push(("tree=0".into(), m, false));
            let mut m = s.out.clone(); for b in m[j * TREE..(j + 1) * TREE].iter_mut() { *b = 0xff; } cases.push(("tree=ff".into(), m, false));
        }
        { let mut m = s.out.clone(); let (a, b) = (s.out[..TREE].to_vec(), s.out[TREE..2 * TREE].to_vec()); m[..TREE].copy_from_slice(&b); m[TREE..2 * TREE].copy_from_slice(&a); cases.push(("trees-swapped".into(), m, true)); }
        for (name, m, model) in cases { cx.rep.hist(&format!("pprf.eval:input:{name}")); cx.exec(&format!("c11 pprf eval {sh} {seed} {}", hex::encode(&m)), model); }
    }
    // ---------------- SoftSpoken OT extension, sender
    if let (Some(s), Some(o)) = (get_ss(cx, &sid, seed), get_ss(cx, &sid, seed2)) {
        let mut cases = r1_mutations(rng, &s.r1);
        cases.push(("replay:other-run".into(), o.r1.clone(), false));
        for (k, (name, ch, tp)) in [("valid:choices=0,tape=00", [0u8; L_BYTES], vec![0u8; PAD + 8]), ("valid:choices=1,tape=ff", [0xff; L_BYTES], vec![0xff; PAD + 8]), ("valid:other-choices", { let mut c = [0u8; L_BYTES]; rng.fill_bytes(&mut c); c }, { let mut t = vec![0u8; PAD + 8]; rng.fill_bytes(&mut t); t })].into_iter().enumerate() {
            if let Some(m) = alt_r1(&sid, &s.s, ch, tp) { cases.push((name.into(), m, k == 0)); }
        }
        { let mut m = s.r1.clone(); m[..U_BYTES].copy_from_slice(&o.r1[..U_BYTES]); cases.push(("splice:u-of-another-run".into(), m, false)); }
        // a deviating receiver whose guess of the sender's punctured index is right: accepted, not the honest message
        if thorough || round == 0 {
            let blk = rng.gen_range(0..NB); let mut e = [0u8; L_PRIME_BYTES]; e[rng.gen_range(0..L_BYTES)] = 1 << rng.gen_range(0..8);
            let req = format!("ss adv {sh} {} {} {} {:x}:{}:{:x}", hex::encode(bytemuck::bytes_of(&*s.s)), hex::encode(s.choices), hexw(&s.tape), blk, hex::encode(e), s.r.random_choices[blk]);
            let a = cx.ask(&req);
            if a.len() == 2 * R1_BYTES { cases.push(("adversary:right-guess".into(), unhexw(&a), true)); } else { cx.rep.notes.push("ss adv produced no message".into()); }
        }
        for (name, m, model) in cases { cx.rep.hist(&format!("ss.sender:input:{name}")); cx.exec(&format!("c11 ss send {sh} {seed} {}", hex::encode(&m)), model); }
    }
    // ---------------- random vector OLE, both variants
    let mut sid32 = [0u8; 32]; match round % 5 { 3 => {} 4 => sid32 = [0xff; 32], _ => rng.fill_bytes(&mut sid32) }
    let s32 = hex::encode(sid32);
    for ot in [false, true] {
        let v = if ot { "ot" } else { "ext" };
        let (sa, sb) = (seed.wrapping_add(round), seed2 | 2);
        let (Some(s), Some(o)) = (get_rv(cx, ot, &sid32, sa), get_rv(cx, ot, &sid32, sb)) else { continue };
        let off = if ot { 2 * OT_MSG } else { 0 };
        // receiver
        let mut cases: Vec<(String, Vec<u8>, bool)> = vec![("valid".into(), s.msg2.clone(), true)];
        let mut r = vec![0u8; s.msg2.len()]; rng.fill_bytes(&mut r); cases.push(("random".into(), r, true));
        cases.push(("all-00".into(), vec![0u8; s.msg2.len()], true)); cases.push(("all-ff".into(), vec![0xff; s.msg2.len()], true));
        cases.push(("replay:other-run".into(), o.msg2.clone(), true));
        let qm1 = -Scalar::ONE;
        let alts: Vec<(&str, [Scalar; 2], Vec<u8>)> = if !ot { vec![("valid:a=0,tape=00", [Scalar::ZERO; 2], vec![0u8; 64 * RHO + 8]), ("valid:a=q-1,tape=ff", [qm1; 2], vec![0xff; 64 * RHO + 8]), ("valid:a=(1,q-1)", [Scalar::ONE, qm1], { let mut t = vec![0u8; 64 * RHO + 8]; rng.fill_bytes(&mut t); t })] }
            else { vec![("valid:a=(0,q-1),other-tape", [Scalar::ZERO, qm1], { let mut t = vec![0u8; 2 * 512 * 32 + 64 * RHO + 1024]; rng.fill_bytes(&mut t); t })] };
        for (name, a, tape) in alts { if let Some(m) = alt_msg2(&s, a, tape) { cases.push((name.into(), m, true)); } }
        cases.extend(core_mutations(rng, &s.msg2, off, &o.msg2));
        if ot {
            let beta = s.beta.clone();
            for (name, m, model) in ot_msg_mutations(rng, &s.msg2[..OT_MSG], &|k| bit(&beta, k)).into_iter().skip(1) {
                let mut full = s.msg2.clone(); full[..OT_MSG].copy_from_slice(&m); cases.push((format!("ot_msg2_a:{name}"), full, model && !name.starts_with("all") && name != "random"));
            }
            { let mut full = s.msg2.clone(); for b in full[OT_MSG..2 * OT_MSG].iter_mut() { *b = 0xff; } cases.push(("ot_msg2_b:all-ff".into(), full, false)); }
            { let mut full = s.msg2.clone(); for b in full[..2 * OT_MSG].iter_mut() { *b = 0; } cases.push(("ot_msg2_a+b:identity".into(), full, false)); }
        } else if thorough || round == 0 {
            // a deviating sender whose guess of the receiver's choice bit is right: accepted, not the honest message
            let j = rng.gen_range(0..XI); let (_, rs) = s.seeds.as_ref().unwrap();
            let req = format!("rvole adv {s32} {} {} {} {} {} {:x}:{}:{}:{}", hex::encode(rs.random_choices), hex::encode(bytemuck::bytes_of(&rs.otp_dec_keys)), sc2(&s.a), hex::encode(&s.m1), hex::encode(&s.tape_s),
                j, sc_hex(&Scalar::from(7u32)), sc_hex(&Scalar::from(9u32)), bit(&s.beta, j));
            let a = cx.ask(&req);
            if a.len() == 2 * CORE_BYTES { cases.push(("adversary:right-guess".into(), unhexw(&a), true)); } else { cx.rep.notes.push(format!("rvole adv produced no message: {}", super::clip(&a))); }
        }
        for (name, m, model) in cases { cx.rep.hist(&format!("rvole-{v}.receiver:input:{name}")); cx.exec(&format!("c11 rvole recv {v} {s32} {sa} {}", hex::encode(&m)), model); }
        // sender
        let scases: Vec<(String, Vec<u8>, bool)> = if !ot {
            let mut c = r1_mutations(rng, &s.m1); for x in c.iter_mut() { x.2 = x.0 == "valid" || x.0 == "random"; } c.push(("replay:other-run".into(), o.m1.clone(), false));
            for (k, (name, tape)) in [("valid:beta=0", vec![0u8; L_BYTES + PAD + 8]), ("valid:beta=1", vec![0xff; L_BYTES + PAD + 8]), ("valid:other-beta", { let mut t = vec![0u8; L_BYTES + PAD + 8]; rng.fill_bytes(&mut t); t })].into_iter().enumerate() {
                if let Some(m) = alt_round1_ext(&s, tape) { c.push((name.into(), m, k == 2 && thorough)); }
            }
            c
        } else {
            let mut c: Vec<(String, Vec<u8>, bool)> = vec![("valid".into(), s.m1.clone(), true)];
            let mut r = vec![0u8; 2 * OT_MSG]; rng.fill_bytes(&mut r); c.push(("random".into(), r, false));
            c.push(("all-00(identity)".into(), vec![0u8; 2 * OT_MSG], false)); c.push(("all-ff".into(), vec![0xff; 2 * OT_MSG], false));
            for (name, m, model) in ot_msg_mutations(rng, &s.m1[..OT_MSG], &|_| 0).into_iter().skip(4) {
                let mut full = s.m1.clone(); full[..OT_MSG].copy_from_slice(&m); c.push((format!("ot_msg1_a:{name}"), full, model && name.contains("off-curve")));
            }
            { let mut full = s.m1.clone(); let e = k_enc_value("tagff", &full[OT_MSG..OT_MSG + 33]); full[OT_MSG..OT_MSG + 33].copy_from_slice(&e); c.push(("ot_msg1_b:point:tagff".into(), full, false)); }
            c
        };
        for (name, m, model) in scases { cx.rep.hist(&format!("rvole-{v}.sender:input:{name}")); cx.exec(&format!("c11 rvole send {v} {s32} {sa} {}", hex::encode(&m)), model); }
    }
}
