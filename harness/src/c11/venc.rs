//! C11, sl-verifiable-enc: `from_bytes`, `to_bytes`, `verify`, `decrypt` on arbitrary byte strings, both curves.
//! Lines: `c11 venc <k|e> parse <bytes>` | `c11 venc <k|e> verify|decrypt <bytes> <Q> <keyid> <label>`
use super::{class_of, hexw, unhexw, Cx, ED_L, SECP_Q, be_minus_one};
use crate::c09::Cv;
use crate::oracle;
use elliptic_curve::ff::{Field, PrimeField};
use rand::{Rng, RngCore};
use rand_chacha::ChaCha20Rng;
use sl_verifiable_enc::{rsa::traits::PublicKeyParts, RsaError, VerifiableRsaEncryption};
use std::panic::{catch_unwind, AssertUnwindSafe};

type Venc<G> = VerifiableRsaEncryption<G>;

fn err_name(e: &RsaError) -> String {
    match e {
        RsaError::EncError => "EncError".into(), RsaError::DecError => "DecError".into(), RsaError::InvalidLabel => "InvalidLabel".into(),
        RsaError::VerificationFailed => "VerificationFailed".into(), RsaError::InvalidSizeParam => "InvalidSizeParam".into(),
        RsaError::SerdeError(m) => format!("SerdeError:{m}"), RsaError::InvalidSecurityParam => "InvalidSecurityParam".into(),
    }
}
fn parse<G: Cv>(b: &[u8]) -> Result<Venc<G>, String> {
    match catch_unwind(AssertUnwindSafe(|| Venc::<G>::from_bytes(b))) { Ok(Ok(p)) => Ok(p), Ok(Err(e)) => Err(format!("err:{}", err_name(&e))), Err(_) => Err("panic".into()) }
}
fn pt_from<G: Cv>(b: &[u8]) -> Option<G> {
    let mut r = G::Repr::default();
    if r.as_ref().len() != b.len() { return None; }
    r.as_mut().copy_from_slice(b);
    G::from_bytes(&r).into()
}
fn sc_hex<G: Cv>(s: &G::Scalar) -> String { let mut v = s.to_repr().as_ref().to_vec(); if !G::BE { v.reverse(); } hex::encode(v) }
/// the model carries the repaired check order of from_bytes; any SerdeError of the implementation is the same class
fn same_verdict(imp: &str, model: &str) -> bool {
    imp == model || (model.starts_with("err:SerdeError:") && imp.starts_with("err:SerdeError:"))
}

pub fn exec(cx: &mut Cx, line: &str, t: &[&str]) {
    if t.len() < 5 { return; }
    match t[2] { "k" => exec_g::<k256::ProjectivePoint>(cx, line, t), "e" => exec_g::<curve25519_dalek::EdwardsPoint>(cx, line, t), _ => {} }
}

fn exec_g<G: Cv>(cx: &mut Cx, line: &str, t: &[&str]) {
    let bytes = unhexw(t[4]);
    let pre = format!("venc-{}", G::TAG);
    match (t[3], t.len()) {
        ("parse", 5) => {
            let parsed = parse::<G>(&bytes);
            let imp = match &parsed { Ok(_) => "ok".to_string(), Err(e) => e.clone() };
            let req = format!("venc parse {} {}", G::TAG, hexw(&bytes));
            let m = cx.ask_rsa(&req);
            // the model answers ok:<re-serialised bytes>: compare classes here, bytes under to_bytes
            let mcls = if m.starts_with("ok:") { "ok".to_string() } else { m.clone() };
            let same = same_verdict(&imp, &mcls);
            cx.judge(&format!("{pre}.from_bytes"), line, &imp, Some((req.clone(), m.clone(), same)), parsed.is_ok());
            if let Ok(p) = parsed {
                let tb = match catch_unwind(AssertUnwindSafe(|| p.to_bytes())) { Ok(b) => format!("ok:{}", hexw(&b)), Err(_) => "panic".into() };
                let same = tb == m;
                cx.judge(&format!("{pre}.to_bytes"), line, &tb, Some((req, m, same)), tb == format!("ok:{}", hexw(&bytes)));
            }
        }
        ("verify", 8) | ("decrypt", 8) => {
            let (Some(q), label) = (pt_from::<G>(&unhexw(t[5])), unhexw(t[7])) else { cx.rep.notes.push("venc: claimed point does not decode".into()); return };
            let kid = unhexw(t[6]);
            let Some(ki) = cx.env.keys.iter().position(|k| k.id == kid) else { cx.rep.notes.push("venc: unknown key id".into()); return };
            let parsed = parse::<G>(&bytes);
            let deep = parsed.is_ok();
            let (pk, sk, n_hex) = { let k = &cx.env.keys[ki]; (k.pk.clone(), k.sk.clone(), k.n_hex.clone()) };
            let imp = match &parsed {
                Err(e) => e.clone(),
                Ok(p) => if t[3] == "verify" {
                    match catch_unwind(AssertUnwindSafe(|| p.verify(&q, &pk, &label))) { Ok(Ok(())) => "ok".into(), Ok(Err(e)) => format!("err:{}", err_name(&e)), Err(_) => "panic".into() }
                } else {
                    match catch_unwind(AssertUnwindSafe(|| p.decrypt(&q, &sk, &label))) { Ok(Ok(v)) => format!("ok:{}", sc_hex::<G>(&v)), Ok(Err(e)) => format!("err:{}", err_name(&e)), Err(_) => "panic".into() }
                }
            };
            let req = format!("venc {} {} {} {} {} {} {}", t[3], G::TAG, hexw(&bytes), t[5], t[6], n_hex, hexw(&label));
            let m = cx.ask_rsa(&req);
            let same = same_verdict(&imp, &m);
            cx.judge(&format!("{pre}.{}", t[3]), line, &imp, Some((req, m, same)), deep);
            if class_of(&imp) == "ok" { cx.rep.hist(&format!("{pre}.{}:accepted", t[3])); }
        }
        _ => {}
    }
}

// ------------------------------------------------------------------------------------------------ generators
fn scalar_boundaries<G: Cv>() -> Vec<(&'static str, [u8; 32])> {
    let ord = if G::BE { SECP_Q } else { ED_L };
    let mut v = vec![("scalar=0", [0u8; 32]), ("scalar=order-1", be_minus_one(&ord)), ("scalar=order", ord), ("scalar=2^256-1", [0xff; 32])];
    if !G::BE { let mut h = [0u8; 32]; h[0] = 0x80; v.push(("scalar=2^255", h)); }
    for (_, b) in v.iter_mut() { if !G::BE { b.reverse(); } }
    v
}
fn point_mutations<G: Cv>(honest: &[u8]) -> Vec<(String, Vec<u8>)> {
    if G::BE { super::K_ENC.iter().map(|n| (format!("point:{n}"), super::k_enc_value(n, honest))).collect() }
    else {
        let mut v: Vec<(String, Vec<u8>)> = vec![];
        let mut id = vec![0u8; 32]; id[0] = 1; v.push(("point:identity".into(), id.clone()));
        let mut ids = id.clone(); ids[31] = 0x80; v.push(("point:identity-sign-bit".into(), ids));
        let mut yp = vec![0xffu8; 32]; yp[0] = 0xed; yp[31] = 0x7f; v.push(("point:y=p(non-canonical-0)".into(), yp.clone()));
        let mut yp1 = yp.clone(); yp1[0] = 0xee; v.push(("point:y=p+1(non-canonical-1)".into(), yp1));
        v.push(("point:all-ff".into(), vec![0xff; 32]));
        v.push(("point:all-00(order-4)".into(), vec![0u8; 32]));
        let mut neg = honest.to_vec(); neg[31] ^= 0x80; v.push(("point:negate".into(), neg));
        let mut off = honest.to_vec(); loop { off[0] = off[0].wrapping_add(1); if oracle::e_point(&off).is_none() { break; } } v.push(("point:off-curve".into(), off));
        // a point of order 8 (torsion), from the list of small-order encodings
        v.push(("point:order-8".into(), hex::decode("26e8958fc2b227b045c3f489f2ef98f0d5dfac05d3c63339b13802886d53fc05").unwrap()));
        v
    }
}

pub fn generate<G: Cv>(cx: &mut Cx, rng: &mut ChaCha20Rng, round: u64) {
    let tag = G::TAG;
    let key_i = 0usize;
    let (pk, kid) = { let k = &cx.env.keys[key_i]; (k.pk.clone(), hex::encode(&k.id)) };
    let esz = pk.size();
    let (gsz, ssz) = (G::POINT_LEN, 32usize);
    let slot = gsz + 2 * esz;
    // ---- a valid proof made by the real code
    let x = loop { let s = G::Scalar::random(&mut *rng); if !bool::from(s.is_zero()) { break s; } };
    let q = G::generator() * x;
    let qh = hex::encode(q.to_bytes().as_ref());
    let mut label = vec![0u8; [7usize, 0, 33][(round % 3) as usize]]; rng.fill_bytes(&mut label);
    let lh = hexw(&label);
    let proof = match catch_unwind(AssertUnwindSafe(|| Venc::<G>::encrypt_with_proof(&x, &pk, &label, None, &mut *rng))) {
        Ok(Ok(p)) => p, _ => { cx.rep.notes.push("venc: honest encrypt_with_proof failed; stream skipped".into()); return } };
    let base = proof.to_bytes();
    let sp = 128usize;
    let slots_end = 40 + sp * slot;
    debug_assert_eq!(base.len(), slots_end + sp * ssz);
    let pline = |b: &[u8]| format!("c11 venc {tag} parse {}", hexw(b));
    let vline = |op: &str, b: &[u8], qh: &str, lh: &str| format!("c11 venc {tag} {op} {} {qh} {kid} {lh}", hexw(b));
    let mut parse_cases: Vec<(String, Vec<u8>)> = vec![("valid".into(), base.clone())];
    let mut full_cases: Vec<(String, Vec<u8>)> = vec![("valid".into(), base.clone())];       // also verify + decrypt

    // ---- garbage: uniformly random / all-00 / all-ff at boundary lengths
    for len in [0usize, 1, 39, 40, 41, 100, base.len() - 1, base.len(), base.len() + 1] {
        let mut r = vec![0u8; len]; rng.fill_bytes(&mut r); parse_cases.push((format!("random:len={len}"), r));
    }
    for len in [40usize, base.len()] { parse_cases.push((format!("all-00:len={len}"), vec![0u8; len])); parse_cases.push((format!("all-ff:len={len}"), vec![0xff; len])); }
    // ---- truncated / extended valid proof
    for cut in [1usize, ssz, slot, slot + ssz, base.len() - 40] { parse_cases.push((format!("truncated:-{cut}"), base[..base.len() - cut].to_vec())); }
    for ext in [1usize, ssz, slot + ssz] { let mut b = base.clone(); b.extend((0..ext).map(|_| rng.gen::<u8>())); parse_cases.push((format!("extended:+{ext}"), b)); }
    // ---- random body behind a VALID header: gets past the length checks into the scalar / point decoding
    { let mut b = vec![0u8; base.len()]; rng.fill_bytes(&mut b); b[32..40].copy_from_slice(&base[32..40]);
      if !G::BE { for i in 0..sp { b[slots_end + i * ssz + 31] &= 0x0f; } }
      full_cases.push(("random-body-valid-header".into(), b)); }
    { let mut b = vec![0u8; base.len()]; b[32..40].copy_from_slice(&base[32..40]); full_cases.push(("zero-body-valid-header".into(), b)); }
    { let mut b = vec![0xffu8; base.len()]; b[32..40].copy_from_slice(&base[32..40]); parse_cases.push(("ff-body-valid-header".into(), b)); }
    // ---- size fields at their boundaries (body unchanged, then body made consistent where possible)
    let set16 = |b: &mut Vec<u8>, off: usize, v: usize| b[off..off + 2].copy_from_slice(&(v as u16).to_be_bytes());
    for v in [0usize, 1, 127, 129, 255, 256, 257, 65535] { let mut b = base.clone(); set16(&mut b, 32, v); parse_cases.push((format!("field:security_param={v}"), b)); }
    for v in [0usize, gsz - 1, gsz + 1, 65535] { let mut b = base.clone(); set16(&mut b, 34, v); parse_cases.push((format!("field:g_r-size={v}"), b)); }
    for v in [0usize, 1, esz - 1, esz + 1, esz / 2, 65535] { let mut b = base.clone(); set16(&mut b, 36, v); parse_cases.push((format!("field:enc-size={v}"), b)); }
    for v in [0usize, 31, 33, 65535] { let mut b = base.clone(); set16(&mut b, 38, v); parse_cases.push((format!("field:scalar-size={v}"), b)); }
    // consistent re-shapings: N slots by repeating slot 0 / opening 0 (well-formed on the wire, wrong as a proof)
    for n in [1usize, 127, 129, 256, 257, 300] {
        if !cx.thorough && (n == 300 || n == 1) && round % 2 == 1 { continue; }
        let mut b = base[..40].to_vec(); set16(&mut b, 32, n);
        for i in 0..n { let s = i % sp; b.extend_from_slice(&base[40 + s * slot..40 + (s + 1) * slot]); }
        for i in 0..n { let s = i % sp; b.extend_from_slice(&base[slots_end + s * ssz..slots_end + (s + 1) * ssz]); }
        if (128..=256).contains(&n) { full_cases.push((format!("reshaped:slots={n}"), b)); } else { parse_cases.push((format!("reshaped:slots={n}"), b)); }
    }
    // length-consistent re-framings of the header: g_r-size and enc-size changed TOGETHER so that the slot size
    // (g + 2e) — and with it every length check — is unchanged: only the per-field width checks can object
    for d in [1isize, -1, 2, 8, -8, 16, -16] {
        let (g2, e2) = (gsz as isize + 2 * d, esz as isize - d);
        if g2 < 0 || e2 < 0 { continue; }
        let mut b = base.clone(); set16(&mut b, 34, g2 as usize); set16(&mut b, 36, e2 as usize);
        parse_cases.push((format!("reframed:g_r-size={g2},enc-size={e2}"), b));
    }
    // and with the body resized to match an arbitrary (g_r-size, enc-size) pair
    for (g2, e2) in [(0usize, 0usize), (0, esz), (1, 1), (gsz, 1), (gsz + 1, 0), (65535, 0), (gsz - 1, esz), (gsz + 1, esz)] {
        let mut b = base[..40].to_vec(); set16(&mut b, 34, g2); set16(&mut b, 36, e2);
        b.resize(40 + sp * (g2 + 2 * e2 + ssz), 0x11);
        parse_cases.push((format!("resized:g_r-size={g2},enc-size={e2}"), b));
    }
    // enc size 0: bare points + openings
    { let mut b = base[..40].to_vec(); set16(&mut b, 36, 0);
      for i in 0..sp { b.extend_from_slice(&base[40 + i * slot..40 + i * slot + gsz]); }
      b.extend_from_slice(&base[slots_end..]); full_cases.push(("reshaped:enc-size=0".into(), b)); }
    // ---- point encodings in slot i
    let slots_to_hit = [0usize, 127, rng.gen_range(1..127)];
    for (k, (name, enc)) in point_mutations::<G>(&base[40..40 + gsz]).into_iter().enumerate() {
        let i = slots_to_hit[k % 3];
        let mut b = base.clone(); let o = 40 + i * slot;
        b[o..o + gsz].copy_from_slice(&enc);
        full_cases.push((name, b));
    }
    // ---- scalar encodings in opening i
    for (k, (name, enc)) in scalar_boundaries::<G>().into_iter().enumerate() {
        let i = slots_to_hit[k % 3];
        let mut b = base.clone(); let o = slots_end + i * ssz; b[o..o + ssz].copy_from_slice(&enc);
        full_cases.push((name.to_string(), b));
    }
    // ---- ciphertext boundaries in slot i (enc_x_r and enc_r): 0, 1, n-1, n, all-ff
    let n_be = { let mut v = pk.n().to_bytes_be(); while v.len() < esz { v.insert(0, 0); } v };
    let mut n1 = n_be.clone(); { let l = n1.len(); n1[l - 1] &= 0xfe; }       // n is odd: n-1
    let mut one = vec![0u8; esz]; one[esz - 1] = 1;
    for (k, (name, ct)) in [("ct=0", vec![0u8; esz]), ("ct=1", one), ("ct=n-1", n1), ("ct=n", n_be), ("ct=all-ff", vec![0xff; esz])].into_iter().enumerate() {
        let i = slots_to_hit[k % 3];
        for side in 0..2 { let mut b = base.clone(); let o = 40 + i * slot + gsz + side * esz; b[o..o + esz].copy_from_slice(&ct);
            full_cases.push((format!("{name}:{}", if side == 0 { "enc_x_r" } else { "enc_r" }), b)); }
    }
    // ---- seed, single byte flips
    { let mut b = base.clone(); for v in b[..32].iter_mut() { *v = 0; } full_cases.push(("seed=0".into(), b)); }
    for _ in 0..(if cx.thorough { 12 } else { 4 }) { let mut b = base.clone(); let p = rng.gen_range(0..b.len()); b[p] ^= 1 << rng.gen_range(0..8); full_cases.push(("bitflip".into(), b)); }
    // ---- an adversarially built proof that verifies although three unopened ciphertexts are garbage (Lean adversary)
    if cx.thorough || round == 0 {
        let mut tape = vec![0u8; 32 + sp * G::DRAW + 512]; rng.fill_bytes(&mut tape);
        let n_hex = cx.env.keys[key_i].n_hex.clone();
        let a = cx.ask_rsa(&format!("venc adv {tag} {} {kid} {n_hex} {lh} {sp} garbage:raw:0,1,2:400 {}", sc_hex::<G>(&x), hex::encode(&tape)));
        let f: Vec<&str> = a.split(':').collect();
        if f.len() == 3 && f[0] == "ok" { full_cases.push(("adversary:garbage-unopened".into(), unhexw(f[1]))); }
    }
    for (name, b) in &parse_cases { cx.rep.hist(&format!("venc-{tag}:input:{}", name.split(['=', ':']).next().unwrap_or(name))); cx.exec(&pline(b), true); }
    for (name, b) in &full_cases {
        cx.rep.hist(&format!("venc-{tag}:input:{}", name.split(['=', ':']).next().unwrap_or(name)));
        cx.exec(&pline(b), true);
        cx.exec(&vline("verify", b, &qh, &lh), true);
        cx.exec(&vline("decrypt", b, &qh, &lh), true);
    }
    // ---- other contexts for the valid proof: identity as claimed point, empty / 1 KiB label
    let idh = hex::encode(G::identity().to_bytes().as_ref());
    let mut big = vec![0u8; 1024]; rng.fill_bytes(&mut big);
    for (qh2, lh2) in [(idh.as_str(), lh.as_str()), (qh.as_str(), "-"), (qh.as_str(), &hex::encode(&big))] {
        cx.exec(&vline("verify", &base, qh2, lh2), true);
        cx.exec(&vline("decrypt", &base, qh2, lh2), true);
    }
}
