//! C11, sl-mpc-mate: relay frames, message headers / ids, BIP32 root keys and paths.
//! Lines: `c11 relay run <op,op,…>`   ops as in the C15 stream: `f<conn>:<frame>` start_send, `s:<frame>` service send, `t<secs>`
//!        `c11 hdr dec <bytes>` | `c11 msgid dec <bytes>`
//!        `c11 bip32 derive <root key bytes> <chain code> <prefix> <path: u32,…|->` | `c11 bip32 child <parent33> <cc> <index>`
//!        `c11 bip32 path <hex of the text>`      (external crate derivation-path; when it parses, the path is derived too)
use super::{class_of, hexw, unhexw, Cx, k_enc_value, K_ENC};
use crate::c15::{self, Op};
use crate::oracle;
use derivation_path::{ChildIndex, DerivationPath};
use elliptic_curve::group::GroupEncoding;
use futures_util::{FutureExt, Sink, StreamExt};
use k256::ProjectivePoint;
use rand::{Rng, RngCore};
use rand_chacha::ChaCha20Rng;
use sl_mpc_mate::bip32::{derive_child_pubkey, derive_xpub, generate_key_id, Prefix};
use sl_mpc_mate::coord::simple::{verif_clock, MessageRelay};
use sl_mpc_mate::coord::SimpleMessageRelay;
use sl_mpc_mate::message::{allocate_message, Kind, MsgHdr, MsgId};
use std::panic::{catch_unwind, AssertUnwindSafe};
use std::pin::Pin;
use std::str::FromStr;

fn plus(mut v: Vec<String>) -> String { v.sort(); if v.is_empty() { "-".into() } else { v.join("+") } }

/// one history on the real relay; per op: (result, deliveries, msgs, heap) as the C15 stream prints them, plus what became
/// unusable (state dump / `messages()` / a NEW connection's ask)
fn run_relay(rt: &tokio::runtime::Runtime, ops: &[Op]) -> (Vec<(String, String, String, String)>, Option<String>) {
    rt.block_on(async {
        let relay = SimpleMessageRelay::new();
        let mut conns: Vec<MessageRelay> = (0..c15::NCONN).map(|_| relay.connect()).collect();
        let mut now = 0u64;
        verif_clock::set_secs(0);
        let mut out = vec![]; let mut broken: Option<String> = None;
        for (k, op) in ops.iter().enumerate() {
            if broken.is_some() { out.push(("skipped".into(), "-".into(), "-".into(), "-".into())); continue; }
            let res = match op {
                Op::Tick(s) => { now += s; verif_clock::set_secs(now); "ok".to_string() }
                Op::Frame(c, b) => match catch_unwind(AssertUnwindSafe(|| Pin::new(&mut conns[*c % c15::NCONN]).start_send(b.clone()))) { Ok(Ok(())) => "ok".into(), Ok(Err(_)) => "senderr".into(), Err(_) => "panic".into() },
                Op::Service(b) => match catch_unwind(AssertUnwindSafe(|| relay.send(b.clone()))) { Ok(()) => "ok".into(), Err(_) => "panic".into() },
            };
            for _ in 0..4 { tokio::task::yield_now().await; }
            let mut del = vec![];
            for (c, conn) in conns.iter_mut().enumerate() { while let Some(Some(m)) = conn.next().now_or_never() { del.push(format!("{c}:{}", hexw(&m))); } }
            let dump = catch_unwind(AssertUnwindSafe(|| relay.verif_dump()));
            let ids = catch_unwind(AssertUnwindSafe(|| relay.messages().len()));
            let (msgs, heap) = match (dump, ids) {
                (Ok((m, h)), Ok(n)) => {
                    if n != m.len() { broken = Some(format!("after op {k}: messages() lists {n} ids, the state holds {}", m.len())); }
                    (plus(m.iter().map(|(id, f, n, e)| match f { Some(f) => format!("{}:R:{}", hexw(id), hexw(f)), None => format!("{}:W:{e}:{n}", hexw(id)) }).collect()),
                     plus(h.iter().map(|(w, id, kd)| format!("{w}:{}:{}", hexw(id), if *kd == Kind::Ask { "A" } else { "P" })).collect())) }
                _ => { broken = Some(format!("after op {k}: the relay lock is poisoned (verif_dump / messages panic)")); ("poisoned".into(), "poisoned".into()) }
            };
            out.push((res, plus(del), msgs, heap));
        }
        // another caller: a fresh connection publishes and asks, and is served
        if broken.is_none() {
            let r = catch_unwind(AssertUnwindSafe(|| {
                let mut c = relay.connect();
                let id = MsgId::from([0x5au8; 32]);
                let a = Pin::new(&mut c).start_send(allocate_message(&id, 60, 0, &[1, 2, 3])).is_ok();
                let b = Pin::new(&mut c).start_send(allocate_message(&id, 60, 0, &[])).is_ok();
                (a, b, c)
            }));
            match r {
                Ok((true, true, mut c)) => { for _ in 0..4 { tokio::task::yield_now().await; }
                    if !matches!(c.next().now_or_never(), Some(Some(m)) if m.len() == 39) { broken = Some("a fresh connection's ask for its own publication is not answered".into()); } }
                Ok(_) => broken = Some("a fresh connection's start_send fails".into()),
                Err(_) => broken = Some("a fresh connection's start_send panics".into()),
            }
        }
        (out, broken)
    })
}

fn pt(p: &ProjectivePoint) -> String { hex::encode(p.to_bytes()) }
fn prefix_name(p: &Prefix) -> String { match p { Prefix::XPub => "xpub".into(), Prefix::YPub => "ypub".into(), Prefix::ZPub => "zpub".into(), Prefix::TPub => "tpub".into(), Prefix::Custom(v) => format!("{v:08x}") } }
fn parse_prefix(s: &str) -> Option<Prefix> { Some(match s { "xpub" => Prefix::XPub, "ypub" => Prefix::YPub, "zpub" => Prefix::ZPub, "tpub" => Prefix::TPub, h => Prefix::Custom(u32::from_str_radix(h, 16).ok()?) }) }
fn path_str(p: &[u32]) -> String { if p.is_empty() { "-".into() } else { p.iter().map(|x| x.to_string()).collect::<Vec<_>>().join(",") } }

fn derive(cx: &mut Cx, line: &str, root: &ProjectivePoint, cc: [u8; 32], prefix: Prefix, path: &[u32]) {
    let dp = DerivationPath::new(path.iter().map(|b| ChildIndex::from_bits(*b)).collect::<Vec<_>>());
    let r = catch_unwind(AssertUnwindSafe(|| derive_xpub(prefix, root, cc, dp)));
    let imp = match r {
        Err(_) => "panic".to_string(),
        Ok(Err(e)) => format!("err:{e:?}"),
        Ok(Ok(x)) => match catch_unwind(AssertUnwindSafe(|| (x.to_string(false), x.to_string(true)))) {
            Err(_) => "panic:to_string".into(),
            Ok((h, b)) => format!("ok:{:08x}:{}:{}:{}:{}:{}:{}:{}", u32::from(x.prefix), x.depth, hex::encode(x.parent_fingerprint), x.child_number, hex::encode(x.chain_code), pt(&x.pubkey), h, b),
        },
    };
    let req = format!("bip32 derive {} {} {} {}", pt(root), hex::encode(cc), prefix_name(&prefix), path_str(path));
    let m = cx.ask(&req);
    let mf: Vec<&str> = m.split(':').collect();
    let identity = *root == ProjectivePoint::IDENTITY;
    let hardened = path.iter().any(|b| b & (1 << 31) != 0);
    let violations = identity as u8 + hardened as u8 + (path.len() > 255) as u8;
    let same = if m.starts_with("ok:") && mf.len() == 11 { mf[..9].join(":") == imp }
               else if violations >= 2 { m.starts_with("err:") && imp.starts_with("err:") }      // C12 does not fix a precedence among several violated preconditions
               else { m == imp };
    cx.judge("bip32.derive_xpub+to_string", line, &imp, Some((req, m, same)), imp.starts_with("ok") && !path.is_empty());
    let kid = catch_unwind(AssertUnwindSafe(|| generate_key_id(root, cc)));
    cx.judge("bip32.generate_key_id", line, if kid.is_ok() { "ok" } else { "panic" }, None, true);
}

pub fn exec(cx: &mut Cx, line: &str, t: &[&str]) {
    match (t[1], t[2]) {
        ("relay", "run") if t.len() == 4 => {
            let ops: Vec<Op> = t[3].split(',').filter_map(c15::parse_op).collect();
            let idx = cx.rep.case("relay.history", Some(line));      // registered BEFORE the real code runs (watchdog attribution)
            let (got, broken) = run_relay(&cx.rt, &ops);
            let req = format!("relay run {}", ops.iter().map(c15::op_str).collect::<Vec<_>>().join(","));
            let ans = cx.ask(&req);
            let recs: Vec<Vec<&str>> = ans.split(';').map(|r| r.split('|').collect()).collect();
            let ok_shape = recs.len() == ops.len() && recs.iter().all(|r| r.len() == 6);
            let mut first_diff: Option<String> = None;
            for (k, (g, op)) in got.iter().zip(ops.iter()).enumerate() {
                let entry = match op { Op::Frame(..) => "relay.start_send", Op::Service(_) => "relay.service_send", Op::Tick(_) => continue };
                let len = match op { Op::Frame(_, b) | Op::Service(b) => b.len(), _ => 0 };
                let cls = class_of(&g.0);
                cx.rep.hist(&format!("{entry}:{cls}"));
                if matches!(op, Op::Frame(..)) && len >= 36 || len > 36 { cx.rep.hist(&format!("{entry}:deep")); }
                cx.rep.hist(&format!("{entry}:model"));
                if cls == "panic" {
                    cx.rep.pred_fail(crate::report::Failure { stream: entry.into(), index: idx, request: vec![line.to_string()], impl_out: format!("op {k} ({}) panicked", super::clip(&c15::op_str(op))), model_out: String::new(),
                        key: format!("nopanic:{entry}"), what: format!("{entry} panicked on an attacker-supplied frame") });
                }
                if ok_shape && first_diff.is_none() {
                    let r = &recs[k];
                    let (i, m) = (format!("{}|{}|{}|{}", g.0, g.1, g.2, g.3), format!("{}|{}|{}|{}", r[0], r[1], r[2], r[3]));
                    if i != m { first_diff = Some(format!("op {k}: impl {} model {}", super::clip(&i), super::clip(&m))); }
                }
            }
            if let Some(b) = &broken { let e = if ops.iter().any(|o| matches!(o, Op::Service(_))) { "relay.service_send" } else { "relay.start_send" }; cx.unusable(e, line, b); }
            if !ok_shape || first_diff.is_some() {
                if broken.is_none() && !got.iter().any(|g| g.0 == "panic") {
                    cx.rep.diverge(crate::report::Failure { stream: "relay.history".into(), index: idx, request: vec![line.to_string(), req], impl_out: first_diff.clone().unwrap_or_default(), model_out: super::clip(&ans), key: "c11:relay-model".into(),
                        what: "Lean model Relay.step and SimpleMessageRelay disagree on a history of arbitrary frames".into() });
                }
            }
        }
        ("hdr", "dec") if t.len() == 4 => {
            let b = unhexw(t[3]);
            let r = catch_unwind(AssertUnwindSafe(|| match <&MsgHdr>::try_from(b.as_slice()) { Ok(h) => format!("ok:{}:{}:{}", hex::encode(h.id().as_slice()), h.ttl().as_secs(), h.flags()), Err(_) => "err:none".into() }));
            let imp = r.unwrap_or_else(|_| "panic".into());
            let req = format!("relay dec {}", hexw(&b));
            let m = cx.ask(&req);
            let same = (m == "none" && imp == "err:none") || imp == format!("ok:{m}");
            cx.judge("hdr.try_from", line, &imp, Some((req, m, same)), imp.starts_with("ok"));
            let r2 = catch_unwind(AssertUnwindSafe(|| MsgHdr::try_from(b.as_slice()).is_ok()));
            if r2.is_err() || (r2.ok() != Some(imp.starts_with("ok"))) { cx.judge("hdr.try_from", line, "panic:owned-variant-differs", None, false); }
        }
        ("msgid", "dec") if t.len() == 4 => {
            let b = unhexw(t[3]);
            let r = catch_unwind(AssertUnwindSafe(|| match MsgId::try_from(b.as_slice()) { Ok(id) => if id.as_slice() == &b[..32] { "ok".to_string() } else { "panic:wrong-bytes".into() }, Err(_) => "err".into() }));
            let imp = r.unwrap_or_else(|_| "panic".into());
            let req = format!("c11 msgid {}", b.len());
            let m = cx.ask(&req);
            let same = m == class_of(&imp);
            cx.judge("msgid.try_from", line, &imp, Some((req, m, same)), imp == "ok");
        }
        ("bip32", "derive") if t.len() == 7 => {
            let (rb, ccb) = (unhexw(t[3]), unhexw(t[4]));
            let Ok(cc) = <[u8; 32]>::try_from(ccb) else { return };
            let Some(prefix) = parse_prefix(t[5]) else { return };
            let path: Option<Vec<u32>> = if t[6] == "-" { Some(vec![]) } else { t[6].split(',').map(|x| x.parse().ok()).collect() };
            let Some(path) = path else { return };
            // external: SEC1 / GroupEncoding decoding of the 33 bytes
            let dec = catch_unwind(AssertUnwindSafe(|| oracle::k_point(&rb)));
            match dec {
                Err(_) => cx.judge("bip32.root_decode(external:k256)", line, "panic", None, false),
                Ok(None) => cx.judge("bip32.root_decode(external:k256)", line, "err", None, false),
                Ok(Some(root)) => { cx.judge("bip32.root_decode(external:k256)", line, "ok", None, true); derive(cx, line, &root, cc, prefix, &path); }
            }
        }
        ("bip32", "child") if t.len() == 6 => {
            let Some(parent) = oracle::k_point(&unhexw(t[3])) else { return };
            let Ok(cc) = <[u8; 32]>::try_from(unhexw(t[4])) else { return };
            let Ok(bits) = t[5].parse::<u32>() else { return };
            let r = catch_unwind(AssertUnwindSafe(|| derive_child_pubkey(&parent, cc, &ChildIndex::from_bits(bits))));
            let imp = match r { Err(_) => "panic".to_string(), Ok(Err(e)) => format!("err:{e:?}"), Ok(Ok((off, child, cc2))) => format!("ok:{}:{}:{}", hex::encode(off.to_bytes()), pt(&child), hex::encode(cc2)) };
            let req = format!("bip32 child {} {} {}", pt(&parent), hex::encode(cc), bits);
            let m = cx.ask(&req);
            let same = m == imp;
            cx.judge("bip32.derive_child_pubkey", line, &imp, Some((req, m, same)), imp.starts_with("ok"));
        }
        ("bip32", "path") if t.len() == 4 => {
            let text = String::from_utf8_lossy(&unhexw(t[3])).into_owned();
            let r = catch_unwind(AssertUnwindSafe(|| DerivationPath::from_str(&text)));
            match r {
                Err(_) => cx.judge("bip32.path_str(external:derivation-path)", line, "panic", None, false),
                Ok(Err(_)) => cx.judge("bip32.path_str(external:derivation-path)", line, "err", None, false),
                Ok(Ok(p)) => {
                    cx.judge("bip32.path_str(external:derivation-path)", line, "ok", None, true);
                    let bits: Vec<u32> = p.path().iter().map(|c| c.to_bits()).collect();
                    let mut cc = [0u8; 32]; cc[0] = bits.len() as u8;
                    derive(cx, line, &(ProjectivePoint::GENERATOR * k256::Scalar::from(3u32)), cc, Prefix::XPub, &bits);
                }
            }
        }
        _ => {}
    }
}

// ------------------------------------------------------------------------------------------------ generators
fn frame_zoo(rng: &mut ChaCha20Rng) -> Vec<(&'static str, Vec<u8>)> {
    let rnd = |rng: &mut ChaCha20Rng, len: usize| { let mut v = vec![0u8; len]; rng.fill_bytes(&mut v); v };
    let id = |k: u8| { let mut b = [k; 32]; b[0] = 0xA0 + k; MsgId::from(b) };
    let mut v: Vec<(&'static str, Vec<u8>)> = vec![];
    for len in [0usize, 1, 31, 32, 33, 35] { v.push(("random:short", rnd(rng, len))); }
    for len in [36usize, 37, 80, 1000] { v.push(("random:header-or-more", rnd(rng, len))); }
    for len in [35usize, 36, 37] { v.push(("all-00", vec![0u8; len])); v.push(("all-ff", vec![0xff; len])); }
    for ttl in [0u32, 1, 65535, 65536, u32::MAX] { v.push(("valid:ask", allocate_message(&id(1), ttl, 0, &[]))); v.push(("valid:publish", allocate_message(&id(1), ttl, 0xffff, &[7]))); }
    v.push(("valid:publish", allocate_message(&id(2), 2, 1, &rnd(rng, 300))));
    v.push(("valid:ask", allocate_message(&id(2), 3, 0, &[])));
    // the same ids published again with payloads of OTHER lengths (shorter, longer, much longer): duplicates are ignored by
    // the relay, whatever it does with the second frame must not assume equal lengths
    for (k, len) in [(1u8, 2usize), (1, 40), (2, 1), (2, 301), (3, 5), (1, 4000)] { v.push(("valid:republish-other-length", allocate_message(&id(k), 5, 1, &rnd(rng, len)))); }
    v.push(("truncated:ask-35", allocate_message(&id(2), 3, 0, &[])[..35].to_vec()));
    v.push(("truncated:publish-to-header", allocate_message(&id(3), 3, 0, &[9, 9])[..36].to_vec()));
    v.push(("extended:ask+1", allocate_message(&id(3), 3, 0, &[0])));
    { let mut f = allocate_message(&id(1), 1, 0, &[5]); f[34] = 0xff; f[35] = 0xff; v.push(("field:flags=ffff", f)); }
    { let mut f = allocate_message(&id(1), 1, 0, &[5]); f[32] = 0xff; f[33] = 0xff; v.push(("field:ttl=ffff", f)); }
    { let f = allocate_message(&MsgId::ZERO_ID, 1, 0, &[]); v.push(("id=0:ask", f)); }
    { let f = allocate_message(&MsgId::from([0xff; 32]), 1, 0, &[1]); v.push(("id=ff:publish", f)); }
    v
}

pub fn generate(cx: &mut Cx, rng: &mut ChaCha20Rng, round: u64) {
    let thorough = cx.thorough;
    // ---------------- header / id decoding
    let zoo = frame_zoo(rng);
    for (name, f) in &zoo {
        cx.rep.hist(&format!("frame:input:{name}"));
        cx.exec(&format!("c11 hdr dec {}", hexw(f)), true);
        cx.exec(&format!("c11 msgid dec {}", hexw(f)), true);
    }
    // ---------------- relay histories: every zoo frame alone (both entry points), then random mixes with clock advances
    for (_, f) in &zoo {
        cx.exec(&format!("c11 relay run f0:{}", hexw(f)), true);
        cx.exec(&format!("c11 relay run s:{}", hexw(f)), true);
    }
    let n_hist = if thorough { 120 } else { 60 };
    for _ in 0..n_hist {
        let len = rng.gen_range(2..30);
        let ops: Vec<String> = (0..len).map(|_| match rng.gen_range(0..10) {
            0..=4 => format!("f{}:{}", rng.gen_range(0..3), hexw(&zoo[rng.gen_range(0..zoo.len())].1)),
            5..=6 => format!("s:{}", hexw(&zoo[rng.gen_range(0..zoo.len())].1)),
            7 => { let n = rng.gen_range(0..80); let mut v = vec![0u8; n]; rng.fill_bytes(&mut v); format!("f{}:{}", rng.gen_range(0..3), hexw(&v)) }
            _ => format!("t{}", [0u64, 1, 2, 70000][rng.gen_range(0..4)]),
        }).collect();
        cx.exec(&format!("c11 relay run {}", ops.join(",")), true);
    }
    // ---------------- BIP32: root key encodings x chain codes x prefixes x paths
    const H: u32 = 1 << 31;
    let g = ProjectivePoint::GENERATOR;
    let honest = oracle::k_enc(&(g * k256::Scalar::from(rng.next_u64())));
    let mut roots: Vec<(String, Vec<u8>)> = vec![("valid".into(), honest.clone())];
    for n in K_ENC { roots.push((format!("point:{n}"), k_enc_value(n, &honest))); }
    for len in [0usize, 1, 32, 34, 65] { let mut v = vec![0u8; len]; rng.fill_bytes(&mut v); if len == 65 { v[0] = 4; } roots.push((format!("length={len}"), v)); }
    { let mut v = vec![0u8; 33]; rng.fill_bytes(&mut v); roots.push(("random-33".into(), v)); }
    roots.push(("all-ff".into(), vec![0xff; 33]));
    { let mut v = honest.clone(); v[0] = 2; for b in v[1..].iter_mut() { *b = 0; } roots.push(("x=0".into(), v)); }
    let paths: Vec<Vec<u32>> = vec![vec![], vec![0], vec![H - 1], vec![H], vec![u32::MAX], vec![0, 1, 2], vec![0, H, 1], (0..255).collect(), (0..256).collect(), (0..257).collect(),
        vec![rng.gen::<u32>() & (H - 1); 40], (0..1000).map(|_| rng.gen()).collect(), vec![u32::MAX; 300]];
    let prefixes = ["xpub", "ypub", "zpub", "tpub", "00000000", "ffffffff"];
    let ccs: Vec<[u8; 32]> = vec![[0u8; 32], [0xff; 32], { let mut c = [0u8; 32]; rng.fill_bytes(&mut c); c }];
    for (k, (name, root)) in roots.iter().enumerate() {
        cx.rep.hist(&format!("bip32.root:input:{name}"));
        let npaths = if name == "valid" || name == "point:compact05" { paths.len() } else { 3 };
        for j in 0..npaths {
            let p = &paths[(j + if npaths == 3 { k + round as usize } else { 0 }) % paths.len()];
            cx.exec(&format!("c11 bip32 derive {} {} {} {}", hexw(root), hex::encode(ccs[(j + k) % ccs.len()]), prefixes[(j + k) % prefixes.len()], path_str(p)), true);
        }
    }
    for (k, bits) in [0u32, 1, H - 1, H, u32::MAX, rng.gen(), rng.gen::<u32>() & (H - 1)].into_iter().enumerate() {
        for parent in [honest.clone(), vec![0u8; 33], oracle::k_enc(&g), oracle::k_enc(&(-g))] {
            cx.exec(&format!("c11 bip32 child {} {} {}", hex::encode(&parent), hex::encode(ccs[k % ccs.len()]), bits), true);
        }
    }
    // ---------------- derivation paths as text (external crate)
    let mut texts: Vec<(&str, String)> = vec![
        ("valid", "m".into()), ("valid", "m/0".into()), ("valid", "m/0/1/2".into()), ("valid:hardened", "m/44'/0'/0'/0/1".into()), ("valid:hardened", "m/0h".into()), ("valid", "m/2147483647".into()),
        ("boundary", "m/2147483648".into()), ("boundary", "m/4294967295".into()), ("boundary", "m/4294967296".into()), ("boundary", "m/2147483647'".into()), ("boundary", "m/2147483648'".into()),
        ("boundary", "m/18446744073709551616".into()), ("boundary", "m/-1".into()), ("boundary", "m/+1".into()), ("boundary", "m/00000000000000000000000001".into()),
        ("malformed", "".into()), ("malformed", "/".into()), ("malformed", "m/".into()), ("malformed", "m//".into()), ("malformed", "m//0".into()), ("malformed", "M/0".into()), ("malformed", "0/1".into()), ("malformed", "m/0'/".into()),
        ("malformed", "m/0''".into()), ("malformed", "m/'".into()), ("malformed", "m/0 /1".into()), ("malformed", " m/0".into()), ("malformed", "m/0\n".into()), ("malformed", "m\\0".into()), ("malformed", "m/0x10".into()),
        ("malformed", "m/1e3".into()), ("malformed", "m/\u{0661}".into()), ("malformed", "m/\u{1F600}".into()), ("malformed", "m/0\0".into()), ("malformed", "\0".into()), ("malformed", "'".into()), ("malformed", "m'".into()),
        ("long", format!("m{}", "/1".repeat(255))), ("long", format!("m{}", "/1".repeat(256))), ("long", format!("m{}", "/1'".repeat(300))), ("long", format!("m{}", "/7".repeat(if thorough { 100000 } else { 20000 }))), ("long", format!("m/{}", "9".repeat(5000))),
        ("long", "/".repeat(10000)),
    ];
    for _ in 0..(if thorough { 60 } else { 30 }) {
        let n = rng.gen_range(0..40);
        let alphabet: &[u8] = b"m/'h0123456789 -+Mx\0\xff";
        let s: Vec<u8> = (0..n).map(|_| alphabet[rng.gen_range(0..alphabet.len())]).collect();
        texts.push(("random:path-alphabet", String::from_utf8_lossy(&s).into_owned()));
    }
    for _ in 0..10 { let n = rng.gen_range(0..64); let mut v = vec![0u8; n]; rng.fill_bytes(&mut v); texts.push(("random:bytes", String::from_utf8_lossy(&v).into_owned())); }
    for (name, s) in &texts { cx.rep.hist(&format!("bip32.path_str:input:{name}")); cx.exec(&format!("c11 bip32 path {}", hexw(s.as_bytes())), true); }
}
