//! C11: no untrusted-input entry point of the four crates panics (overflow-checks and debug-assertions are ON in this
//! build, so arithmetic overflow and out-of-bounds indexing surface as panics under `catch_unwind`), and the relay's
//! shared state stays usable.  One case = one call of a real entry point on attacker-chosen bytes:
//!   outcome class in {ok, err, panic};   PREDICATE (independent of the model): class != panic   (key `nopanic:<entry>`)
//!   CORRESPONDENCE: the Lean model's outcome (full output where the driver prints it, else its class) equals the
//!   implementation's.  For the heavy OT / VOLE entry points only the cases flagged by the generator ask the model; the
//!   rest is predicate-only (histogram `<entry>:model` vs `<entry>:predicate-only`).
//! Histogram per entry point: `<entry>:ok|err|panic`, `<entry>:deep` = inputs that got PAST the entry point's checks.
//! Every case is one replayable line `c11 <family> <op> <args…>` (local state is regenerated from the seeds in it).
use crate::{c09, driver::Driver, oracle, report::{Failure, Report}, rng::case_rng, Opts};
use rand::SeedableRng;
use rand_chacha::ChaCha20Rng;
use std::collections::HashMap;
use std::rc::Rc;

mod venc;
mod pai;
mod obl;
mod mate;

pub(crate) fn hexw(b: &[u8]) -> String { if b.is_empty() { "-".into() } else { hex::encode(b) } }
pub(crate) fn unhexw(h: &str) -> Vec<u8> { if h == "-" { vec![] } else { hex::decode(h).unwrap_or_default() } }
pub(crate) fn class_of(s: &str) -> &'static str {
    if s.starts_with("panic") { "panic" } else if s.starts_with("ok") || s.starts_with("some") { "ok" } else { "err" }
}
pub(crate) fn clip(s: &str) -> String { if s.len() > 400 { format!("{}…[{} chars]", &s[..400], s.len()) } else { s.to_string() } }
pub(crate) fn chacha(seed: u64, tag: &[u8; 4]) -> ChaCha20Rng {
    let mut s = [0u8; 32]; s[..8].copy_from_slice(&seed.to_le_bytes()); s[8..12].copy_from_slice(tag);
    ChaCha20Rng::from_seed(s)
}
/// secp256k1 group order and field prime, big-endian
pub(crate) const SECP_Q: [u8; 32] = [0xff,0xff,0xff,0xff,0xff,0xff,0xff,0xff,0xff,0xff,0xff,0xff,0xff,0xff,0xff,0xfe,0xba,0xae,0xdc,0xe6,0xaf,0x48,0xa0,0x3b,0xbf,0xd2,0x5e,0x8c,0xd0,0x36,0x41,0x41];
/// order of the edwards25519 prime-order subgroup, big-endian
pub(crate) const ED_L: [u8; 32] = [0x10,0,0,0,0,0,0,0,0,0,0,0,0,0,0,0,0x14,0xde,0xf9,0xde,0xa2,0xf7,0x9c,0xd6,0x58,0x12,0x63,0x1a,0x5c,0xf5,0xd3,0xed];
pub(crate) fn be_minus_one(v: &[u8; 32]) -> [u8; 32] { let mut r = *v; let mut i = 31; loop { if r[i] > 0 { r[i] -= 1; break; } r[i] = 0xff; i -= 1; } r }

/// special encodings derived from an honest 33-byte secp256k1 point (same classes as the C05 stream)
pub(crate) const K_ENC: [&str; 9] = ["identity", "compact05", "negate", "tag04", "tag00", "tagff", "x>=p", "off-curve", "generator"];
pub(crate) fn k_enc_value(val: &str, p: &[u8]) -> Vec<u8> {
    let mut v = p.to_vec();
    match val {
        "identity" => v = vec![0u8; 33],
        "compact05" => v[0] = 5,
        "negate" => v[0] ^= 1,
        "tag04" => v[0] = 4,
        "tag00" => { v[0] = 0; if v[1..].iter().all(|b| *b == 0) { v[32] = 1; } }
        "tagff" => v[0] = 0xff,
        "x>=p" => { for b in v[1..].iter_mut() { *b = 0xff; } }
        "off-curve" => { if v[0] != 2 && v[0] != 3 { v[0] = 2; } loop { let mut i = 32; loop { v[i] = v[i].wrapping_add(1); if v[i] != 0 || i == 1 { break; } i -= 1; } if oracle::k_point(&v).is_none() { break; } } }
        "generator" => v = oracle::k_enc(&k256::ProjectivePoint::GENERATOR),
        _ => {}
    }
    v
}

/// `oracle::answer`, except that a merlin query whose operations extend those of the previous merlin query (the 512
/// successive challenges of the RVOLE gadget vector on one growing transcript) continues from the saved transcript
/// state.  Same library, same answers (copy of the helper of the C01 stream, which is private there).
pub(crate) fn answer(q: &str) -> String {
    use std::cell::RefCell;
    thread_local! { static LAST: RefCell<Option<(String, String, merlin::Transcript)>> = RefCell::new(None);
                    static LABELS: RefCell<HashMap<Vec<u8>, &'static [u8]>> = RefCell::new(HashMap::new()); }
    fn unhex(h: &str) -> Vec<u8> { if h == "-" { vec![] } else { hex::decode(h).expect("oracle: bad hex") } }
    fn leak(b: &[u8]) -> &'static [u8] { LABELS.with(|t| *t.borrow_mut().entry(b.to_vec()).or_insert_with(|| Box::leak(b.to_vec().into_boxed_slice()))) }
    let Some(rest) = q.strip_prefix("merlin ") else { return oracle::answer(q) };
    let (init, ops) = rest.split_once(' ').unwrap_or((rest, ""));
    if ops.len() < 4096 { return oracle::answer(q); }
    LAST.with(|l| {
        let mut l = l.borrow_mut();
        let (mut t, tail) = match l.as_ref() {
            Some((i, o, t)) if i == init && ops.len() > o.len() && ops.starts_with(o.as_str()) && ops.as_bytes()[o.len()] == b';' => (t.clone(), &ops[o.len() + 1..]),
            _ => (merlin::Transcript::new(leak(&unhex(init))), ops),
        };
        let mut last = vec![];
        for op in tail.split(';').filter(|s| !s.is_empty()) {
            let f: Vec<&str> = op.split(':').collect();
            match f[0] {
                "m" => t.append_message(leak(&unhex(f[1])), &unhex(f[2])),
                "u" => t.append_u64(leak(&unhex(f[1])), f[2].parse().expect("u64")),
                "c" => { let mut buf = vec![0u8; f[2].parse().expect("len")]; t.challenge_bytes(leak(&unhex(f[1])), &mut buf); last = buf; }
                x => panic!("oracle: bad transcript op {x}"),
            }
        }
        *l = Some((init.to_string(), ops.to_string(), t));
        if last.is_empty() { "-".into() } else { hex::encode(last) }
    })
}

pub struct Cx<'a> {
    pub drv: &'a mut Driver, pub rep: &'a mut Report, pub env: c09::Env, pub rt: tokio::runtime::Runtime,
    pub thorough: bool, pub scale: u64,
    pub(crate) eot: HashMap<String, Rc<obl::EotSess>>, pub(crate) pprf: HashMap<String, Rc<obl::PprfSess>>, pub(crate) ss: HashMap<String, Rc<obl::SsSess>>,
    pub(crate) rv: HashMap<String, Rc<obl::RvSess>>, pub(crate) pai_key: Option<Rc<pai::ValidKey>>,
    pub timing: HashMap<String, f64>,
}

/// what the model said about a case: (request line, answer, does it agree with the implementation?)
pub(crate) type ModelSaid = Option<(String, String, bool)>;

impl<'a> Cx<'a> {
    pub(crate) fn ask(&mut self, req: &str) -> String { self.drv.ask_with(req, &mut |q| answer(q)) }
    pub(crate) fn ask_rsa(&mut self, req: &str) -> String { c09::ask(self.drv, &self.env, req) }

    /// one executed case: histogram, the no-panic predicate, the correspondence verdict
    pub(crate) fn judge(&mut self, entry: &str, line: &str, imp: &str, model: ModelSaid, deep: bool) {
        let cls = class_of(imp);
        let idx = self.rep.case(entry, Some(line));
        self.rep.hist(&format!("{entry}:{cls}"));
        if deep { self.rep.hist(&format!("{entry}:deep")); }
        if idx == 0 && self.rep.samples.len() < 6 { self.rep.sample(serde_json::json!({"entry": entry, "request": clip(line), "impl": clip(imp), "model": model.as_ref().map(|m| clip(&m.1))})); }
        if cls == "panic" {
            let msg = crate::LAST_PANIC.lock().map(|g| g.clone()).unwrap_or_default();
            self.rep.pred_fail(Failure { stream: entry.into(), index: idx, request: vec![line.to_string()], impl_out: format!("{} [{}]", clip(imp), clip(&msg)), model_out: model.as_ref().map_or(String::new(), |m| clip(&m.1)),
                key: format!("nopanic:{entry}"), what: format!("{entry} panicked on attacker-supplied bytes (expected: Ok or Err)") });
        }
        match model {
            Some((req, out, same)) => {
                self.rep.hist(&format!("{entry}:model"));
                if !same && cls != "panic" {
                    self.rep.diverge(Failure { stream: entry.into(), index: idx, request: vec![line.to_string(), req], impl_out: clip(imp), model_out: clip(&out),
                        key: format!("c11:{entry}-model"), what: format!("Lean model and implementation disagree on the outcome of {entry}") });
                }
            }
            None => self.rep.hist(&format!("{entry}:predicate-only")),
        }
    }
    /// shared state left unusable after a call (relay lock)
    pub(crate) fn unusable(&mut self, entry: &str, line: &str, what: &str) {
        self.rep.hist(&format!("{entry}:state-unusable"));
        self.rep.pred_fail(Failure { stream: entry.into(), index: 0, request: vec![line.to_string()], impl_out: what.into(), model_out: "state usable by other callers".into(),
            key: format!("nopanic:{entry}"), what: format!("{entry} left the shared relay state unusable: {what}") });
    }

    /// run one replayable line; `model` = ask the Lean model for this case (heavy entry points only honour it)
    pub fn exec(&mut self, line: &str, model: bool) {
        let t: Vec<&str> = line.split(' ').collect();
        if t.len() < 3 || t[0] != "c11" { return; }
        let t0 = std::time::Instant::now();
        match t[1] {
            "venc" => venc::exec(self, line, &t),
            "pai" => pai::exec(self, line, &t),
            "pod" | "eot" | "pprf" | "ss" | "rvole" => obl::exec(self, line, &t, model),
            "relay" | "hdr" | "msgid" | "bip32" => mate::exec(self, line, &t),
            _ => self.rep.notes.push(format!("replay: unknown line {}", clip(line))),
        }
        *self.timing.entry(format!("{} {}", t[1], t[2])).or_insert(0.0) += t0.elapsed().as_secs_f64();
    }
}

fn new_cx<'a>(o: &Opts, drv: &'a mut Driver, rep: &'a mut Report) -> Cx<'a> {
    Cx { drv, rep, env: c09::Env::new(&Opts { prop: o.prop.clone(), tier: "quick".into(), seed: o.seed, driver: o.driver.clone(), out: o.out.clone(), replay: None, scale: 1 }),
         rt: tokio::runtime::Builder::new_current_thread().build().unwrap(), thorough: o.tier == "thorough", scale: o.scale.max(1),
         eot: HashMap::new(), pprf: HashMap::new(), ss: HashMap::new(), rv: HashMap::new(), pai_key: None, timing: HashMap::new() }
}

pub fn replay(o: &Opts, drv: &mut Driver, rep: &mut Report, lines: &[String]) {
    let mut cx = new_cx(o, drv, rep);
    for l in lines { cx.exec(l, true); }
}

pub fn run(o: &Opts, drv: &mut Driver, rep: &mut Report) {
    let mut cx = new_cx(o, drv, rep);
    let rounds = (if cx.thorough { 8 } else { 1 }) * cx.scale;
    for round in 0..rounds {
        let mut rng = case_rng(o.seed.wrapping_add(round.wrapping_mul(0x9e37_79b9)), "c11");
        cx.eot.clear(); cx.pprf.clear(); cx.ss.clear(); cx.rv.clear();
        venc::generate::<k256::ProjectivePoint>(&mut cx, &mut rng, round);
        venc::generate::<curve25519_dalek::EdwardsPoint>(&mut cx, &mut rng, round);
        pai::generate(&mut cx, &mut rng, round);
        obl::generate(&mut cx, &mut rng, round);
        mate::generate(&mut cx, &mut rng, round);
    }
    let mut tv: Vec<(String, f64)> = cx.timing.iter().map(|(k, v)| (k.clone(), *v)).collect();
    tv.sort_by(|a, b| b.1.partial_cmp(&a.1).unwrap());
    cx.rep.notes.push(format!("seconds per family/op (implementation + model): {}", tv.iter().map(|(k, v)| format!("{k}={v:.1}")).collect::<Vec<_>>().join(", ")));
    cx.rep.notes.push("entry points named *.path_str / *.root_decode / pod.try_from_bytes exercise EXTERNAL crates (derivation-path, k256, bytemuck): no Lean model of the parser itself, predicate only (bytemuck, MsgId: length rule modelled)".into());
    cx.rep.notes.push("heavy OT / VOLE entry points: the generator flags a handful of cases per round for the model (honest, structured-valid, one of each garbage class, a few mutations); all other cases of those entry points are predicate-only".into());
    cx.rep.notes.push("feature-gated serde entry points of sl-oblivious / sl-mpc-mate (GroupPolynomial, DLogProof, EndemicOTReceiver deserialisation) are NOT compiled into this harness (features off) and are not covered".into());
}

