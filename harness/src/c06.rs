//! C06: all-but-one PPRF (soft_spoken/all_but_one.rs: build_pprf / eval_pprf) vs. the Lean model (Model/Pprf.lean),
//! plus the property's conclusions judged on the implementation's own outputs:
//!   consistent base OTs ⇒ Ok; random_choices[j] == y*_j := Σ_i (1 - c_{4j+i}) << (3-i); receiver leaf == sender leaf
//!                         for the 15 indices y != y*_j; the receiver's slot y*_j is all-zero and != the sender's leaf
//!   one flipped bit anywhere in the PPRF message ⇒ Err, or Ok with exactly the honest output
//!   message of another session (other sid, other base OTs, single tree spliced) ⇒ Err
//!   adversarial sender (Lean `advTree`: wrong correction word, proof re-derived for a guessed receiver path)
//!                       ⇒ accepted iff `advAccepts` (guess avoids the word: receiver's bit avoids it too;
//!                          guess uses the word: receiver's whole path equals the guess — at the last level only
//!                          the first K-1 path bits, the wrong leaf being used or being the punctured one)
//! Scenario lines: `c06 <kind> <sid> <seed> <a> <b> <c> <d> <e>`; base-OT outputs are regenerated from the seed.
use crate::{c05, driver::Driver, oracle, report::{Failure, Report}, rng::{case_rng, TapeRng}, Opts};
use rand::{Rng, RngCore};
use rand_core::SeedableRng;
use serde_json::json;
use sl_oblivious::endemic_ot::{EndemicOTMsg1, EndemicOTMsg2, EndemicOTReceiver, EndemicOTSender, ReceiverOutput, SenderOutput};
use sl_oblivious::soft_spoken::{build_pprf, eval_pprf, PPRFOutput, ReceiverOTSeed, SenderOTSeed};
use std::panic::{catch_unwind, AssertUnwindSafe};

const N: usize = 256;
const K: usize = 4;
const Q: usize = 16;
const NT: usize = 64;
const TREE: usize = 320;          // size_of::<PPRF>() = 3*2*32 + 64 + 64
type Key = [u8; 32];

fn hexw(b: &[u8]) -> String { if b.is_empty() { "-".into() } else { hex::encode(b) } }
fn unhexw(s: &str) -> Vec<u8> { if s == "-" { vec![] } else { hex::decode(s).unwrap_or_default() } }
fn bit(bits: &[u8], i: usize) -> usize { ((bits[i >> 3] >> (i & 7)) & 1) as usize }
/// choice bits of tree j as a number, bit i = level i
fn pattern(bits: &[u8], j: usize) -> usize { (0..K).map(|i| bit(bits, j * K + i) << i).sum() }
/// the punctured index: complemented choice bits, level 0 most significant
fn ystar_of(pat: usize) -> usize { (0..K).map(|i| (1 - ((pat >> i) & 1)) << (K - 1 - i)).sum() }
/// acceptance condition of the adversarial message, worked out from the code
fn adv_accepts(level: usize, side: usize, guess: usize, pat: usize) -> bool {
    if (guess >> level) & 1 != side { (pat >> level) & 1 != side }
    else if level == K - 1 { pat & 7 == guess & 7 }   // last level: the wrong leaf is used or is the punctured one
    else { pat == guess }
}

#[derive(Clone)]
pub struct Base { skeys: Vec<(Key, Key)>, bits: Key, dks: Vec<Key> }
impl Base {
    fn skeys_hex(&self) -> String { self.skeys.iter().map(|(a, b)| format!("{}{}", hex::encode(a), hex::encode(b))).collect() }
    fn dks_hex(&self) -> String { self.dks.iter().map(hex::encode).collect() }
    fn tree_keys_hex(&self, j: usize) -> String { self.skeys[j * K..(j + 1) * K].iter().map(|(a, b)| format!("{}{}", hex::encode(a), hex::encode(b))).collect() }
    fn tree_dks_hex(&self, j: usize) -> String { self.dks[j * K..(j + 1) * K].iter().map(hex::encode).collect() }
}

/// consistent base-OT outputs from a seed; every one of the 16 choice patterns occurs (three times) among the trees;
/// source "e" = taken from a real Endemic exchange (random choice bits)
fn base(seed: u64, source: &str, sid: &[u8]) -> Option<Base> {
    let mut s = [0u8; 32]; s[..8].copy_from_slice(&seed.to_le_bytes()); s[8..12].copy_from_slice(b"ppr6");
    let mut rng = rand_chacha::ChaCha20Rng::from_seed(s);
    if source == "e" {
        let (tr, ts) = c05::tapes(seed, 0);
        return catch_unwind(AssertUnwindSafe(|| {
            let mut m1 = EndemicOTMsg1::default(); let mut m2 = EndemicOTMsg2::default();
            let r = EndemicOTReceiver::new(sid, &mut m1, &mut TapeRng::new(tr));
            let so = EndemicOTSender::process(sid, &m1, &mut m2, &mut TapeRng::new(ts)).ok()?;
            let (bits, dks) = r.process(&m2).ok()?.verif_parts();
            Some(Base { skeys: so.verif_keys(), bits, dks })
        })).ok().flatten();
    }
    let skeys: Vec<(Key, Key)> = (0..N).map(|_| (rng.gen(), rng.gen())).collect();
    let mut perm: Vec<usize> = (0..16).collect();
    for i in (1..16).rev() { let k = rng.gen_range(0..=i); perm.swap(i, k); }
    let mut bits = [0u8; 32];
    for j in 0..NT {
        let pat = if j < 48 { perm[j % 16] } else { rng.gen_range(0..16) };
        for i in 0..K { if (pat >> i) & 1 == 1 { bits[(j * K + i) >> 3] |= 1 << ((j * K + i) & 7); } }
    }
    let mut skeys = skeys;
    if source == "z" {
        // special key VALUES (keys are arbitrary 32-byte strings): all-zero / all-ones on the chosen side, on the other side, on both,
        // equal pairs — at the root level (base OT 4j) and at inner levels, several trees
        for (n, t) in [0usize, 1, 2, 5, 17, 31, 62, 63].iter().enumerate() {
            let i = t * K + [0usize, 1, 3, 0, 2, 0, 0, 3][n];
            let c = bit(&bits, i);
            let (z, f): (Key, Key) = ([0u8; 32], [0xffu8; 32]);
            match n % 6 {
                0 => { if c == 0 { skeys[i].0 = z } else { skeys[i].1 = z } }          // chosen key zero
                1 => { if c == 0 { skeys[i].1 = z } else { skeys[i].0 = z } }          // other key zero
                2 => { skeys[i] = (z, z) }
                3 => { if c == 0 { skeys[i].0 = f } else { skeys[i].1 = f } }
                4 => { let v = skeys[i].0; skeys[i].1 = v }                            // equal pair
                _ => { if c == 0 { skeys[i].0 = z } else { skeys[i].1 = z } }
            }
        }
    }
    let dks = (0..N).map(|i| if bit(&bits, i) == 0 { skeys[i].0 } else { skeys[i].1 }).collect();
    Some(Base { skeys, bits, dks })
}

// ---------------------------------------------------------------- the real code
/// (SenderOTSeed bytes, PPRFOutput bytes); `init` = contents of the output buffer on entry
fn real_build(sid: &[u8], b: &Base, init: Option<&[u8]>) -> Option<(Vec<u8>, Vec<u8>)> {
    catch_unwind(AssertUnwindSafe(|| {
        let so = SenderOutput::verif_new(&b.skeys);
        let mut seed = Box::new(SenderOTSeed::default());
        let mut out: Box<PPRFOutput> = Box::new(match init { Some(i) => bytemuck::pod_read_unaligned(i), None => PPRFOutput::default() });
        build_pprf(sid, &so, &mut seed, &mut out);
        if init.is_none() {
            // out-buffer probe: the seed buffer pre-filled.  (PPRFOutput is different: build_pprf XORs into its `t` words, a
            // zeroed PPRFOutput is its precondition — the `init` cases above model exactly that accumulation.)
            let fill = crate::report::dirty_fill(sid);
            let mut seed2 = Box::new(SenderOTSeed::default()); let mut out2 = Box::new(PPRFOutput::default());
            bytemuck::bytes_of_mut(&mut *seed2).iter_mut().for_each(|b| *b = fill);
            build_pprf(sid, &so, &mut seed2, &mut out2);
            if bytemuck::bytes_of(&*seed2) != bytemuck::bytes_of(&*seed) { crate::report::outbuf_dependence("build_pprf(SenderOTSeed)"); }
            if bytemuck::bytes_of(&*out2) != bytemuck::bytes_of(&*out) { crate::report::outbuf_dependence("build_pprf(PPRFOutput) with a pre-filled seed buffer"); }
        }
        (bytemuck::bytes_of(&*seed).to_vec(), bytemuck::bytes_of(&*out).to_vec())
    })).ok()
}
/// Ok((random_choices, otp_dec_keys bytes)) | Err ; None = panic
fn real_eval(sid: &[u8], b: &Base, out: &[u8]) -> Option<Option<(Vec<u8>, Vec<u8>)>> {
    catch_unwind(AssertUnwindSafe(|| {
        let ro = ReceiverOutput::new(b.bits, b.dks.clone().try_into().unwrap());
        let out: Box<PPRFOutput> = Box::new(bytemuck::pod_read_unaligned(out));
        let mut rs = Box::new(ReceiverOTSeed::default());
        match eval_pprf(sid, &ro, &out, &mut rs) {
            Ok(()) => {
                let mut rs2 = Box::new(ReceiverOTSeed::default());
                bytemuck::bytes_of_mut(&mut *rs2).iter_mut().for_each(|b| *b = crate::report::dirty_fill(sid));
                if eval_pprf(sid, &ro, &out, &mut rs2).is_ok() && bytemuck::bytes_of(&*rs2) != bytemuck::bytes_of(&*rs) { crate::report::outbuf_dependence("eval_pprf(ReceiverOTSeed)"); }
                let by = bytemuck::bytes_of(&*rs); Some((by[..NT].to_vec(), by[NT..].to_vec())) }
            Err(_) => None,
        }
    })).ok()
}
fn eval_str(r: &Option<Option<(Vec<u8>, Vec<u8>)>>) -> String {
    match r { None => "panic".into(), Some(None) => "err".into(), Some(Some((c, k))) => format!("ok:{}:{}", hex::encode(c), hex::encode(k)) }
}

struct Ctx<'a> { drv: &'a mut Driver, rep: &'a mut Report, line: String, stream: String, idx: u64 }
impl<'a> Ctx<'a> {
    fn diverge(&mut self, key: &str, what: &str, imp: String, model: String) {
        self.rep.diverge(Failure { stream: self.stream.clone(), index: self.idx, request: vec![self.line.clone()], impl_out: imp, model_out: model, key: key.into(), what: what.into() });
    }
    fn pred(&mut self, key: &str, what: String, imp: String) {
        self.rep.pred_fail(Failure { stream: self.stream.clone(), index: self.idx, request: vec![self.line.clone()], impl_out: imp, model_out: String::new(), key: key.into(), what });
    }
    fn ask(&mut self, req: &str) -> String { self.drv.ask_with(req, &mut |q| oracle::answer(q)) }
    /// model verdict for ONE tree of a message (the other trees are those of an accepted message)
    fn model_tree(&mut self, sid: &[u8], b: &Base, j: usize, out: &[u8]) -> String {
        self.ask(&format!("pprf evaltree {} {} {} {}", hexw(sid), pattern(&b.bits, j), b.tree_dks_hex(j), hex::encode(&out[j * TREE..(j + 1) * TREE])))
    }
    /// compare the real verdict/output on a message that differs from an accepted one in tree j only with `evaltree`
    fn compare_tree(&mut self, sid: &[u8], b: &Base, j: usize, out: &[u8], real: &Option<Option<(Vec<u8>, Vec<u8>)>>, key: &str) {
        let m = self.model_tree(sid, b, j, out);
        let imp = match real { None => "panic".into(), Some(None) => "err".into(), Some(Some((c, k))) => format!("ok:{}:{}", c[j], hex::encode(&k[j * Q * 32..(j + 1) * Q * 32])) };
        if imp != m { self.diverge(key, "Lean model Pprf.evalTree and eval_pprf disagree on the modified tree", imp, m); }
    }
}

/// honest build + eval, model comparison and the conclusion predicate; returns (seed, out, eval output)
fn honest(cx: &mut Ctx, sid: &[u8], b: &Base, full_model: bool) -> Option<(Vec<u8>, Vec<u8>, (Vec<u8>, Vec<u8>))> {
    let Some((seed, out)) = real_build(sid, b, None) else { cx.pred("pprf:build-panic", "build_pprf panicked".into(), String::new()); return None; };
    if full_model {
        let m = cx.ask(&format!("pprf build {} {}", hexw(sid), b.skeys_hex()));
        let imp = format!("{}:{}", hex::encode(&seed), hex::encode(&out));
        if imp != m { cx.diverge("pprf:build-model", "Lean model Pprf.buildPprf and build_pprf disagree", imp, m); }
    }
    let ev = real_eval(sid, b, &out);
    if full_model {
        let m = cx.ask(&format!("pprf eval {} {} {} {}", hexw(sid), hex::encode(b.bits), b.dks_hex(), hex::encode(&out)));
        let imp = eval_str(&ev);
        if imp != m { cx.diverge("pprf:eval-model", "Lean model Pprf.evalPprf and eval_pprf disagree", imp, m); }
    }
    let Some(Some(ev)) = ev else { cx.pred("pprf:honest-rejected", "eval_pprf rejects (or panics on) an honest message from consistent base OTs".into(), eval_str(&ev)); return None; };
    // ---- predicate on the implementation's outputs
    let leaf = |v: &[u8], j: usize, y: usize| v[(j * Q + y) * 32..(j * Q + y + 1) * 32].to_vec();
    for j in 0..NT {
        let pat = pattern(&b.bits, j);
        let ys = ystar_of(pat);
        cx.rep.hist(&format!("choice-pattern:{pat:04b}"));
        if ev.0[j] as usize != ys { cx.pred("pprf:ystar", format!("tree {j}: random_choices = {} but the complemented choice path is {ys}", ev.0[j]), String::new()); }
        let wrong: Vec<usize> = (0..Q).filter(|y| *y != ys && leaf(&ev.1, j, *y) != leaf(&seed, j, *y)).collect();
        if !wrong.is_empty() { cx.pred("pprf:leaf-mismatch", format!("tree {j} (pattern {pat:04b}): receiver leaves {wrong:?} differ from the sender's"), String::new()); }
        if leaf(&ev.1, j, ys) == leaf(&seed, j, ys) { cx.pred("pprf:punctured-leaf-known", format!("tree {j}: the receiver holds the sender's leaf at the punctured index {ys}"), String::new()); }
        if leaf(&ev.1, j, ys).iter().any(|x| *x != 0) { cx.pred("pprf:punctured-slot-nonzero", format!("tree {j}: receiver slot {ys} is not all-zero"), String::new()); }
    }
    Some((seed, out, ev))
}

#[derive(Clone, Debug)]
struct Scen { kind: String, sid: Vec<u8>, seed: u64, a: usize, b: usize, c: usize, d: usize, e: String }
fn scen_line(s: &Scen) -> String { format!("c06 {} {} {} {} {} {} {} {}", s.kind, hexw(&s.sid), s.seed, s.a, s.b, s.c, s.d, s.e) }
fn parse_scen(l: &str) -> Option<Scen> {
    let t: Vec<&str> = l.split(' ').collect();
    if t.len() != 9 || t[0] != "c06" { return None; }
    Some(Scen { kind: t[1].into(), sid: unhexw(t[2]), seed: t[3].parse().ok()?, a: t[4].parse().ok()?, b: t[5].parse().ok()?, c: t[6].parse().ok()?, d: t[7].parse().ok()?, e: t[8].into() })
}

/// state shared by the scenarios that start from one honest run
struct Honest { sid: Vec<u8>, seed: u64, src: String, base: Base, out: Vec<u8>, ev: (Vec<u8>, Vec<u8>), sseed: Vec<u8> }

fn get_honest(cx: &mut Ctx, cache: &mut Option<Honest>, sid: &[u8], seed: u64, src: &str, full_model: bool) -> bool {
    if let Some(h) = cache { if h.sid == sid && h.seed == seed && h.src == src { return true; } }
    let Some(b) = base(seed, src, sid) else { cx.pred("pprf:base-ot-failed", "could not produce base-OT outputs".into(), String::new()); return false; };
    match honest(cx, sid, &b, full_model) {
        Some((sseed, out, ev)) => { *cache = Some(Honest { sid: sid.to_vec(), seed, src: src.into(), base: b, out, ev, sseed }); true }
        None => false,
    }
}

fn scenario(cx: &mut Ctx, cache: &mut Option<Honest>, s: &Scen) {
    cx.line = scen_line(s);
    cx.stream = s.kind.clone();
    cx.idx = cx.rep.case(&s.kind, Some(&cx.line.clone()));
    match s.kind.as_str() {
        // base OTs built with the hooks ("h") or taken from a real Endemic exchange ("e"); a = 1: full model comparison
        "honest" => {
            *cache = None;
            cx.rep.hist(&format!("sid-len:{}", s.sid.len()));
            cx.rep.hist(&format!("base-ot:{}", if s.e == "e" { "endemic-exchange" } else if s.e == "z" { "hooks, special key values" } else { "hooks" }));
            if get_honest(cx, cache, &s.sid, s.seed, &s.e, s.a == 1) && cx.idx == 0 {
                let h = cache.as_ref().unwrap();
                cx.rep.sample(json!({"scenario": cx.line, "choice_bits": hex::encode(h.base.bits), "random_choices": hex::encode(&h.ev.0), "pprf_tree0": hex::encode(&h.out[..TREE])}));
            }
        }
        // the output buffer is not reset by build_pprf: t_tilda accumulates onto its previous contents (model parameter)
        "dirty" => {
            let Some(b) = base(s.seed, "h", &s.sid) else { return };
            let mut init = vec![0u8; NT * TREE];
            let mut r = case_rng(s.seed, "dirty"); r.fill_bytes(&mut init);
            let real = real_build(&s.sid, &b, Some(&init));
            let m = cx.ask(&format!("pprf build {} {} {}", hexw(&s.sid), b.skeys_hex(), hex::encode(&init)));
            let imp = match &real { Some((a, o)) => format!("{}:{}", hex::encode(a), hex::encode(o)), None => "panic".into() };
            if imp != m { cx.diverge("pprf:build-dirty-model", "model and build_pprf disagree when the output buffer is not fresh", imp, m); }
            if let Some((_, o)) = real { if matches!(real_eval(&s.sid, &b, &o), Some(Some(_))) { cx.rep.hist("dirty-buffer:accepted"); } else { cx.rep.hist("dirty-buffer:rejected"); } }
        }
        // a = bit index flipped in the PPRF message
        "tamper" => {
            if !get_honest(cx, cache, &s.sid, s.seed, &s.e, false) { return; }
            let h = cache.as_ref().unwrap();
            let (base, sid, hout, hev) = (h.base.clone(), h.sid.clone(), h.out.clone(), h.ev.clone());
            let mut out = hout.clone();
            out[s.a / 8] ^= 1 << (s.a % 8);
            let j = s.a / 8 / TREE; let off = s.a / 8 % TREE;
            let field = if off < 192 { let lvl = off / 64 + 1; let side = off % 64 / 32; if bit(&base.bits, j * K + lvl) == side { "t-used" } else { "t-unused" } } else if off < 256 { "s_tilda" } else { "t_tilda" };
            cx.rep.hist(&format!("tamper:{field}"));
            let real = real_eval(&sid, &base, &out);
            match &real {
                None => cx.pred("pprf:tamper-panic", format!("eval_pprf panics on a flipped bit in {field}"), String::new()),
                Some(None) => cx.rep.hist("tamper-verdict:rejected"),
                Some(Some(ev)) => {
                    cx.rep.hist("tamper-verdict:accepted-unchanged");
                    if *ev != hev { cx.rep.hist("tamper-verdict:ACCEPTED-CHANGED"); cx.pred(&format!("pprf:tamper-accepted-changed:{field}"), format!("a flipped bit in {field} of tree {j} is accepted and changes the receiver's output"), String::new()); }
                }
            }
            cx.compare_tree(&sid, &base, j, &out, &real, "pprf:tamper-model");
            if s.b == 1 {
                let m = cx.ask(&format!("pprf eval {} {} {} {}", hexw(&sid), hex::encode(base.bits), base.dks_hex(), hex::encode(&out)));
                if eval_str(&real) != m { cx.diverge("pprf:tamper-model-full", "Lean model Pprf.evalPprf and eval_pprf disagree on a tampered message", eval_str(&real), m); }
                let t = cx.drv.ask(&format!("pprf tamper {} {}", hex::encode(&hout), s.a));
                if t != hex::encode(&out) { cx.diverge("pprf:tamper-operator", "Lean tamperBit differs from the harness's bit flip", hex::encode(&out), t); }
            }
        }
        // message recorded in another session: e = other sid (a = 0: same base OTs, 1: other base OTs), b = 1: only tree c is spliced in
        "xsession" => {
            if !get_honest(cx, cache, &s.sid, s.seed, "h", false) { return; }
            let h = cache.as_ref().unwrap();
            let (base_a, sid, hout) = (h.base.clone(), h.sid.clone(), h.out.clone());
            let sid_b = unhexw(&s.e);
            if sid_b == sid && s.a == 0 { return; }
            let base_b = if s.a == 0 { base_a.clone() } else { match base(s.seed ^ 0xabcdef, "h", &sid_b) { Some(b) => b, None => return } };
            let Some((_, out_b)) = real_build(&sid_b, &base_b, None) else { return };
            let mut out = hout.clone();
            if s.b == 1 { out[s.c * TREE..(s.c + 1) * TREE].copy_from_slice(&out_b[s.c * TREE..(s.c + 1) * TREE]); } else { out = out_b; }
            cx.rep.hist(&format!("xsession:{}:{}", if s.a == 0 { "same-base-ot" } else { "other-base-ot" }, if s.b == 1 { "one-tree" } else { "whole" }));
            let real = real_eval(&sid, &base_a, &out);
            if !matches!(real, Some(None)) { cx.pred("pprf:xsession-accepted", "a PPRF message recorded in another session is accepted (or panics)".into(), eval_str(&real)[..5.min(eval_str(&real).len())].to_string()); }
            let j = if s.b == 1 { s.c } else { 0 };   // whole message: the first tree already decides
            cx.compare_tree(&sid, &base_a, j, &out, &real, "pprf:xsession-model");
        }
        // adversarial sender: tree a, level b, side c, guessed receiver pattern d, e = hex of delta (32 bytes)
        "adv" => {
            if !get_honest(cx, cache, &s.sid, s.seed, "h", false) { return; }
            let h = cache.as_ref().unwrap();
            let (base, sid, hout, hev, sseed) = (h.base.clone(), h.sid.clone(), h.out.clone(), h.ev.clone(), h.sseed.clone());
            let (j, level, side, guess) = (s.a, s.b, s.c, s.d);
            let pat = pattern(&base.bits, j);
            let tree = cx.ask(&format!("pprf advtree {} {} {} {} {} {}", hexw(&sid), base.tree_keys_hex(j), level, side, s.e, guess));
            let Ok(tree) = hex::decode(&tree) else { cx.diverge("pprf:adv-model", "malformed advtree answer", String::new(), tree); return; };
            if tree.len() != TREE { cx.diverge("pprf:adv-model", "advtree answer has the wrong size", String::new(), hex::encode(&tree)); return; }
            let mut out = hout.clone();
            out[j * TREE..(j + 1) * TREE].copy_from_slice(&tree);
            let real = real_eval(&sid, &base, &out);
            let accepted = matches!(real, Some(Some(_)));
            let expect = adv_accepts(level, side, guess, pat);
            let uses = (guess >> level) & 1 == side;
            cx.rep.hist(&format!("adv:level{level}:{}:{}", if uses { "guess-uses-word" } else { "guess-avoids-word" }, if accepted { "accepted" } else { "rejected" }));
            if real.is_none() { cx.pred("pprf:adv-panic", "eval_pprf panics on the adversarial message".into(), String::new()); }
            if accepted != expect {
                cx.pred(if accepted { "pprf:adv-accepted-wrong-guess" } else { "pprf:adv-rejected-right-guess" },
                    format!("adversarial sender (tree {j}, level {level}, side {side}, guess {guess:04b}) vs receiver pattern {pat:04b}: accepted = {accepted}, guess right = {expect}"), String::new());
            }
            let ma = cx.drv.ask(&format!("pprf advaccepts {level} {side} {guess} {pat}"));
            if (ma == "1") != expect { cx.diverge("pprf:advaccepts-model", "Lean advAccepts differs from the harness's condition", expect.to_string(), ma); }
            cx.compare_tree(&sid, &base, j, &out, &real, "pprf:adv-model");
            if let Some(Some(ev)) = &real {
                // what an accepted deviation does to the receiver: leaves of tree j that differ from the sender's seed
                let diff = (0..Q).filter(|y| *y != ystar_of(pat) && ev.1[(j * Q + y) * 32..(j * Q + y + 1) * 32] != sseed[(j * Q + y) * 32..(j * Q + y + 1) * 32]).count();
                cx.rep.hist(&format!("adv-accepted:leaves-differing-from-sender={}", if diff == 0 { "0" } else { ">0" }));
                let _ = hev;
            }
            if s.seed % 7 == 0 && level == 1 && side == 0 && guess == 0 {
                let full = cx.ask(&format!("pprf adv {} {} {} {} {} {} {}", hexw(&sid), base.skeys_hex(), j, level, side, s.e, guess));
                if full != hex::encode(&out) { cx.diverge("pprf:adv-splice", "advPprfSender differs from advTree spliced into the honest message", hex::encode(&out), full); }
            }
        }
        _ => {}
    }
}

pub fn replay(drv: &mut Driver, rep: &mut Report, lines: &[String]) {
    let mut cx = Ctx { drv, rep, line: String::new(), stream: String::new(), idx: 0 };
    let mut cache = None;
    for l in lines { if let Some(s) = parse_scen(l) { scenario(&mut cx, &mut cache, &s); } }
}

pub fn run(o: &Opts, drv: &mut Driver, rep: &mut Report) {
    let mut rng = case_rng(o.seed, "c06");
    let thorough = o.tier == "thorough";
    let mut cx = Ctx { drv, rep, line: String::new(), stream: String::new(), idx: 0 };
    let mut cache: Option<Honest> = None;
    let lens = [32usize, 0, 1, 200];
    let sc = |kind: &str, sid: &[u8], seed: u64, a: usize, b: usize, c: usize, d: usize, e: &str| Scen { kind: kind.into(), sid: sid.to_vec(), seed, a, b, c, d, e: e.into() };
    let rounds = (if thorough { 4 } else { 1 }) * o.scale as usize;
    for round in 0..rounds {
        // ---- honest runs with full model comparison: every sid length, hooks and real Endemic outputs
        let n_honest = if thorough { 12 } else { 5 };
        for k in 0..n_honest {
            let sid: Vec<u8> = (0..lens[k % 4]).map(|_| rng.gen()).collect();
            let seed = rng.next_u64() >> 1;
            scenario(&mut cx, &mut cache, &sc("honest", &sid, seed, 1, 0, 0, 0, if k % 4 == 3 || k == 1 { "e" } else if k % 4 == 2 { "z" } else { "h" }));
        }
        let sid: Vec<u8> = (0..32).map(|_| rng.gen()).collect();
        scenario(&mut cx, &mut cache, &sc("dirty", &sid, rng.next_u64() >> 1, 0, 0, 0, 0, "-"));
        // ---- one fixed honest run as the starting point of the fault streams
        let seed = rng.next_u64() >> 1;
        scenario(&mut cx, &mut cache, &sc("honest", &sid, seed, 0, 0, 0, 0, "h"));
        // ---- single-bit corruption: every bit in the thorough tier (first round), random bits otherwise
        let nbits = NT * TREE * 8;
        if thorough && round == 0 {
            for bitno in 0..nbits { scenario(&mut cx, &mut cache, &sc("tamper", &sid, seed, bitno, (bitno % 20011 == 0) as usize, 0, 0, "h")); }
            cx.rep.exhaustive.push(format!("every one of the {nbits} single-bit corruptions of one PPRF message"));
        } else {
            let n = 500 * o.scale as usize;
            for k in 0..n {
                // spread over the fields: correction words, s_tilda, t_tilda
                let j = rng.gen_range(0..NT);
                let off = match k % 4 { 0 | 1 => rng.gen_range(0..192), 2 => rng.gen_range(192..256), _ => rng.gen_range(256..320) };
                let bitno = (j * TREE + off) * 8 + rng.gen_range(0..8);
                scenario(&mut cx, &mut cache, &sc("tamper", &sid, seed, bitno, (k % 250 == 0) as usize, 0, 0, "h"));
            }
        }
        // ---- cross-session substitution
        let mut others: Vec<Vec<u8>> = vec![(0..32).map(|_| rng.gen()).collect(), { let mut f = sid.clone(); f[rng.gen_range(0..32)] ^= 1 << rng.gen_range(0..8); f }, { let mut f = sid.clone(); f.push(0); f }, vec![]];
        others.push(sid.clone());   // same sid, other base OTs
        for (n, sb) in others.iter().enumerate() {
            for a in 0..2 { for b in 0..2 {
                if n == 4 && a == 0 { continue; }
                if !thorough && n >= 2 && n != 4 && b == 0 { continue; }
                scenario(&mut cx, &mut cache, &sc("xsession", &sid, seed, a, b, rng.gen_range(0..NT), 0, &hexw(sb)));
            } }
        }
        // ---- adversarial sender grid: (level, side, guess, receiver pattern); trees j < 48 carry every pattern
        let base = base(seed, "h", &sid).unwrap();
        for level in 1..K { for side in 0..2 { for guess in 0..16 { for pat in 0..16 {
            let cands: Vec<usize> = (0..NT).filter(|j| pattern(&base.bits, *j) == pat).collect();
            let j = cands[rng.gen_range(0..cands.len())];
            let mut delta = [0u8; 32];
            match (guess + pat) % 3 { 0 => rng.fill_bytes(&mut delta), 1 => delta[rng.gen_range(0..32)] = 1 << rng.gen_range(0..8), _ => delta = [0xff; 32] }
            scenario(&mut cx, &mut cache, &sc("adv", &sid, seed, j, level, side, guess, &hex::encode(delta)));
        } } } }
        if round == 0 { cx.rep.exhaustive.push("adversarial sender: all (level, side, guessed path, receiver path) = 3*2*16*16 combinations".into()); }
    }
    cx.rep.notes.push("y*_j = sum_i (1 - c_{4j+i}) << (3-i): the punctured path is the complemented choice bits, level 0 most significant".into());
    cx.rep.notes.push("build_pprf XORs t_tilda onto the previous contents of the output buffer (stream `dirty`): a reused PPRFOutput yields a message the receiver rejects".into());
}
