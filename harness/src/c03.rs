//! C03 / C04: SoftSpokenOTReceiver::process / SoftSpokenOTSender::process vs. the Lean model
//! (Model/SoftSpoken.lean, driver namespace `ss`) through the merlin oracle.
//!   C03: one honest run — receiver output = sender output for the choice bit, != for the other bit, choices kept.
//!   C04: honest message accepted; tampered message => Err(AbortProtocolAndBanReceiver); the calibrated adversarial
//!        receiver (built by the Lean `advReceiver`) is accepted iff every guess of the sender's index is right.
use crate::{driver::Driver, oracle, report::{Failure, Report}, rng::{case_rng, TapeRng}, Opts};
use rand::{seq::SliceRandom, Rng, RngCore};
use serde_json::json;
use sl_oblivious::{
    endemic_ot::{EndemicOTMsg1, EndemicOTMsg2, EndemicOTReceiver, EndemicOTSender},
    params::consts::*,
    soft_spoken::{
        build_pprf, eval_pprf, generate_all_but_one_seed_ot, PPRFOutput, ReceiverExtendedOutput, ReceiverOTSeed,
        Round1Output, SenderExtendedOutput, SenderOTSeed, SoftSpokenOTReceiver, SoftSpokenOTSender,
    },
    utils::ExtractBit,
};
use std::panic::{catch_unwind, AssertUnwindSafe};

const NB: usize = LAMBDA_C_DIV_SOFT_SPOKEN_K;
const U_BYTES: usize = NB * L_PRIME_BYTES;
const R1_BYTES: usize = U_BYTES + S_BYTES + LAMBDA_C * S_BYTES;
const PAD: usize = L_PRIME_BYTES - L_BYTES;

fn hexw(b: &[u8]) -> String { if b.is_empty() { "-".into() } else { hex::encode(b) } }
fn unhexw(h: &str) -> Option<Vec<u8>> { if h == "-" { Some(vec![]) } else { hex::decode(h).ok() } }

// ------------------------------------------------------------------ seeds

#[derive(Clone)]
struct Seeds { s: Box<SenderOTSeed>, r: Box<ReceiverOTSeed> }

fn set_delta(sd: &mut Seeds, i: usize, d: u8) {
    sd.r.otp_dec_keys[i] = sd.s.otp_enc_keys[i];
    sd.r.random_choices[i] = d;
    if (d as usize) < SOFT_SPOKEN_Q { sd.r.otp_dec_keys[i][d as usize] = [0u8; LAMBDA_C_BYTES]; }
}

fn synthetic_seeds(rng: &mut (impl RngCore + rand::CryptoRng)) -> Seeds {
    let (s, r) = generate_all_but_one_seed_ot(rng);
    Seeds { s: Box::new(s), r: Box::new(r) }
}

/// seeds from the real pipeline: EndemicOT (base OT) -> build_pprf / eval_pprf (all-but-one OT)
fn pipeline_seeds(rng: &mut (impl RngCore + rand::CryptoRng), sid: &[u8]) -> Option<Seeds> {
    let mut msg1 = EndemicOTMsg1::default();
    let recv = EndemicOTReceiver::new(sid, &mut msg1, rng);
    let mut msg2 = EndemicOTMsg2::default();
    let sender_out = EndemicOTSender::process(sid, &msg1, &mut msg2, rng).ok()?;
    let recv_out = recv.process(&msg2).ok()?;
    let mut s = Box::new(SenderOTSeed::default());
    let mut r = Box::new(ReceiverOTSeed::default());
    let mut pprf = PPRFOutput::default();
    build_pprf(sid, &sender_out, &mut s, &mut pprf);
    eval_pprf(sid, &recv_out, &pprf, &mut r).ok()?;
    Some(Seeds { s, r })
}

#[derive(Clone, Copy, Debug)]
enum Delta { AsGenerated, All(u8), Ramp, Random, ZeroExcept(usize, u8) }

fn apply_delta(sd: &mut Seeds, d: Delta, rng: &mut impl RngCore) -> String {
    match d {
        Delta::AsGenerated => "delta:as-generated".into(),
        Delta::All(v) => { for i in 0..NB { set_delta(sd, i, v); } format!("delta:all-{v}") }
        Delta::Ramp => { for i in 0..NB { set_delta(sd, i, (i % SOFT_SPOKEN_Q) as u8); } "delta:ramp".into() }
        Delta::Random => { for i in 0..NB { let v = rng.gen_range(0..SOFT_SPOKEN_Q) as u8; set_delta(sd, i, v); } "delta:random".into() }
        Delta::ZeroExcept(k, v) => { for i in 0..NB { set_delta(sd, i, if i == k { v } else { 0 }); } "delta:zero-except-one".into() }
    }
}

/// leaf keys with special VALUES, set consistently on both sides (non-punctured leaves only): an all-zero key (the value the
/// punctured slot holds), an all-ones key, two equal leaves in one tree.  Keys are arbitrary 32-byte strings.
fn special_keys(sd: &mut Seeds, kind: usize, rng: &mut impl RngCore) -> &'static str {
    let mut set = |sd: &mut Seeds, i: usize, j: usize, v: [u8; LAMBDA_C_BYTES]| {
        if sd.r.random_choices[i] as usize == j { return; }
        sd.s.otp_enc_keys[i][j] = v; sd.r.otp_dec_keys[i][j] = v;
    };
    match kind % 4 {
        0 => { let i = rng.gen_range(0..NB); let j = (sd.r.random_choices[i] as usize + 1 + rng.gen_range(0..SOFT_SPOKEN_Q - 1)) % SOFT_SPOKEN_Q; set(sd, i, j, [0u8; LAMBDA_C_BYTES]); "keys:one-zero-leaf" }
        1 => { for i in 0..NB { let j = (sd.r.random_choices[i] as usize + 1 + i) % SOFT_SPOKEN_Q; set(sd, i, j, [0u8; LAMBDA_C_BYTES]); } "keys:zero-leaf-in-every-tree" }
        2 => { let i = rng.gen_range(0..NB); for j in 0..SOFT_SPOKEN_Q { set(sd, i, j, [0xff; LAMBDA_C_BYTES]); } "keys:all-ones-tree" }
        _ => { let i = rng.gen_range(0..NB); let v = sd.s.otp_enc_keys[i][(sd.r.random_choices[i] as usize + 1) % SOFT_SPOKEN_Q]; for j in 0..SOFT_SPOKEN_Q { set(sd, i, j, v); } "keys:equal-leaves-tree" }
    }
}

fn nabla_is_zero(sd: &Seeds) -> bool { sd.r.random_choices.iter().all(|d| d & (SOFT_SPOKEN_Q as u8 - 1) == 0) }

// ------------------------------------------------------------------ running the real code

fn enc_hex(sd: &Seeds) -> String { hex::encode(bytemuck::bytes_of(&*sd.s)) }
fn dec_hex(sd: &Seeds) -> String { hex::encode(bytemuck::bytes_of(&sd.r.otp_dec_keys)) }
fn rc_hex(sd: &Seeds) -> String { hex::encode(sd.r.random_choices) }

fn recv_req(sid: &[u8], sd: &Seeds, choices: &[u8; L_BYTES], tape: &[u8]) -> String {
    format!("ss recv {} {} {} {}", hexw(sid), enc_hex(sd), hex::encode(choices), hexw(tape))
}
fn send_req(sid: &[u8], sd: &Seeds, r1: &[u8]) -> String {
    format!("ss send {} {} {} {}", hexw(sid), rc_hex(sd), dec_hex(sd), hex::encode(r1))
}

struct RecvOut { r1: Vec<u8>, ext: Box<ReceiverExtendedOutput>, used: usize }

fn run_recv(sid: &[u8], s: &SenderOTSeed, choices: &[u8; L_BYTES], tape: &[u8]) -> Option<RecvOut> {
    catch_unwind(AssertUnwindSafe(|| {
        let mut round1 = Round1Output::default();
        let mut ext = bytemuck::allocation::zeroed_box::<ReceiverExtendedOutput>();
        // the extended output is a caller-supplied buffer that the function overwrites completely: what it held before
        // the call (zeroes, all-ones, a pattern as left by an earlier run; picked by the tape so that a replay takes the
        // same one) must not show in the result.  Round1Output is different: the function XORs into u, x and t, so a
        // zeroed message is its precondition (every caller in the workspace passes Round1Output::default()).
        let fill = [0u8, 0xff, 0xa5, 0][tape.first().map(|b| (*b & 3) as usize).unwrap_or(0)];
        if fill != 0 { bytemuck::bytes_of_mut(&mut *ext).iter_mut().for_each(|b| *b = fill); }
        ext.choices = *choices;
        let mut rng = TapeRng::new(tape.to_vec());
        SoftSpokenOTReceiver::process(sid, s, &mut round1, &mut ext, &mut rng);
        RecvOut { r1: bytemuck::bytes_of(&round1).to_vec(), ext, used: rng.used }
    })).ok()
}

/// Some(Ok(output)) | Some(Err(())) = ban | None = panic
fn run_send(sid: &[u8], r: &ReceiverOTSeed, r1: &[u8]) -> Option<Result<Box<SenderExtendedOutput>, ()>> {
    assert_eq!(r1.len(), R1_BYTES);
    catch_unwind(AssertUnwindSafe(|| {
        let msg: Round1Output = bytemuck::pod_read_unaligned(r1);
        SoftSpokenOTSender::process(sid, r, &msg).map_err(|_| ())
    })).ok()
}

fn send_str(o: &Option<Result<Box<SenderExtendedOutput>, ()>>) -> String {
    match o {
        None => "panic".into(),
        Some(Err(())) => "ban".into(),
        Some(Ok(so)) => format!("ok:{}", hex::encode(bytemuck::bytes_of(&**so))),
    }
}

fn clip(s: &str) -> String { if s.len() > 300 { format!("{}…[{}]", &s[..300], s.len()) } else { s.to_string() } }

// ------------------------------------------------------------------ C03

/// the conclusion of C03 on the implementation's own outputs; returns failed predicate classes
fn c03_predicate(choices: &[u8; L_BYTES], ext: &ReceiverExtendedOutput, so: &SenderExtendedOutput, nabla_zero: bool) -> Vec<&'static str> {
    let mut bad = vec![];
    if ext.choices != *choices { bad.push("ss:choices-not-recorded"); }
    let (mut mism, mut same) = (false, false);
    for j in 0..L {
        let bit = choices.extract_bit(j);
        for k in 0..OT_WIDTH {
            let (chosen, other) = if bit { (&so.v_1[j][k], &so.v_0[j][k]) } else { (&so.v_0[j][k], &so.v_1[j][k]) };
            if &ext.v_x[j][k] != chosen { mism = true; }
            if &ext.v_x[j][k] == other { same = true; }
        }
    }
    if mism { bad.push("ss:chosen-output-differs"); }
    if same && !nabla_zero { bad.push("ss:other-output-equal"); }
    bad
}

struct Case { sid: Vec<u8>, sd: Seeds, choices: [u8; L_BYTES], tape: Vec<u8>, tag: String }

/// honest run: receiver (impl vs model), sender (impl vs model), C03 predicate; returns the round-1 bytes and the
/// sender output when everything ran
fn honest(drv: &mut Driver, rep: &mut Report, stream: &str, c: &Case, check_pred: bool)
    -> Option<(Vec<u8>, Option<Box<SenderExtendedOutput>>)> {
    let rreq = recv_req(&c.sid, &c.sd, &c.choices, &c.tape);
    let idx = rep.case(stream, Some(&rreq));
    rep.hist(&c.tag);
    let got = run_recv(&c.sid, &c.sd.s, &c.choices, &c.tape);
    let got_s = match &got { None => "panic".to_string(), Some(o) => format!("{}:{}:{}", hex::encode(&o.r1), hex::encode(bytemuck::bytes_of(&o.ext.v_x)), o.used) };
    let model = drv.ask_with(&rreq, &mut |q| oracle::answer(q));
    if idx < 1 { rep.sample(json!({"stream": stream, "tag": c.tag, "request": clip(&rreq), "impl": clip(&got_s), "model": clip(&model)})); }
    if got_s != model {
        rep.diverge(Failure { stream: stream.into(), index: idx, request: vec![rreq.clone()], impl_out: got_s, model_out: model, key: "ss:recv-model".into(), what: "Lean model receiverProcess and SoftSpokenOTReceiver::process disagree".into() });
    }
    if got.is_none() && check_pred {
        rep.pred_fail(Failure { stream: stream.into(), index: idx, request: vec![rreq.clone()], impl_out: "panic".into(), model_out: "first-round message".into(), key: "ss:honest-panic:receiver".into(), what: format!("SoftSpokenOTReceiver::process panics in an honest run [{}]", c.tag) });
    }
    let o = got?;
    let sreq = send_req(&c.sid, &c.sd, &o.r1);
    // every other case: the sender has JUST rejected a corrupted copy of this message on the same thread (an abort leaves
    // nothing behind: the honest message that follows must be processed as if it were the first)
    if c.tape.first().map_or(false, |b| b & 4 != 0) {
        let mut bad = o.r1.clone(); let p = (c.tape.get(1).copied().unwrap_or(0) as usize * 131) % (bad.len() * 8); bad[p / 8] ^= 1 << (p % 8);
        rep.hist("sender:honest-after-rejected-message");
        if !matches!(run_send(&c.sid, &c.sd.r, &bad), Some(Err(()))) { rep.hist("sender:corrupted-copy-not-rejected (see C04)"); }
    }
    let sgot = run_send(&c.sid, &c.sd.r, &o.r1);
    let sgot_s = send_str(&sgot);
    let smodel = drv.ask_with(&sreq, &mut |q| oracle::answer(q));
    if sgot_s != smodel {
        rep.diverge(Failure { stream: stream.into(), index: idx, request: vec![sreq.clone()], impl_out: sgot_s.clone(), model_out: smodel, key: "ss:send-model".into(), what: "Lean model senderProcess and SoftSpokenOTSender::process disagree (honest message)".into() });
    }
    let in_range = c.sd.r.random_choices.iter().all(|d| (*d as usize) < SOFT_SPOKEN_Q);
    match &sgot {
        Some(Ok(so)) => {
            if check_pred && in_range {
                let nz = nabla_is_zero(&c.sd);
                if nz { rep.hist("excluded-point:all-delta-0 (nabla=0, v_0=v_1 in any implementation)"); }
                for key in c03_predicate(&c.choices, &o.ext, so, nz) {
                    rep.pred_fail(Failure { stream: stream.into(), index: idx, request: vec![rreq.clone(), sreq.clone()], impl_out: key.into(), model_out: "C03 conclusion".into(), key: key.into(), what: format!("C03 conclusion false on the implementation's outputs ({key}) [{}]", c.tag) });
                }
            }
        }
        _ => {
            if check_pred && in_range {
                rep.pred_fail(Failure { stream: stream.into(), index: idx, request: vec![rreq.clone(), sreq.clone()], impl_out: sgot_s, model_out: "accepted".into(), key: "ss:honest-rejected".into(), what: format!("an honest first-round message is not accepted [{}]", c.tag) });
            }
        }
    }
    Some((o.r1, sgot.and_then(|r| r.ok())))
}

fn choice_patterns(rng: &mut impl RngCore) -> Vec<(&'static str, [u8; L_BYTES])> {
    let mut single = [0u8; L_BYTES]; let p = rng.gen_range(0..L); single[p / 8] = 1 << (p % 8);
    let mut first = [0u8; L_BYTES]; first[0] = 1;
    let mut last = [0u8; L_BYTES]; last[L_BYTES - 1] = 0x80;
    let mut rnd = [0u8; L_BYTES]; rng.fill_bytes(&mut rnd);
    let mut inv = [0xffu8; L_BYTES]; inv[p / 8] ^= 1 << (p % 8);
    vec![("choices:all-0", [0u8; L_BYTES]), ("choices:all-1", [0xff; L_BYTES]), ("choices:single-bit", single),
         ("choices:bit-0", first), ("choices:bit-511", last), ("choices:alternating-aa", [0xaa; L_BYTES]),
         ("choices:alternating-55", [0x55; L_BYTES]), ("choices:all-but-one", inv), ("choices:random", rnd)]
}

fn gen_sid(rng: &mut impl RngCore, k: usize) -> Vec<u8> {
    let len = [32usize, 0, 1, 16, 33, 200][k % 6];
    (0..len).map(|_| rng.gen()).collect()
}

fn gen_tape(rng: &mut impl RngCore, k: usize) -> Vec<u8> {
    let mut t = vec![0u8; PAD + 8];           // 8 spare bytes: `used` must stay at PAD
    match k % 5 { 0 => {} 1 => t.iter_mut().for_each(|b| *b = 0xff), _ => rng.fill_bytes(&mut t) }
    t
}

pub fn run_c03(o: &Opts, drv: &mut Driver, rep: &mut Report) {
    let mut rng = case_rng(o.seed, "c03");
    let thorough = o.tier == "thorough";
    // directed: the excluded point (all punctured indices 0), all-15, each value, ramp
    let mut deltas: Vec<Delta> = vec![Delta::All(0), Delta::All(15), Delta::Ramp, Delta::AsGenerated, Delta::ZeroExcept(63, 8), Delta::ZeroExcept(0, 1)];
    if thorough { for v in 1..15u8 { deltas.push(Delta::All(v)); } } else { deltas.push(Delta::All(1 + (o.seed % 14) as u8)); }
    let n_random = (if thorough { 160 } else { 10 }) * o.scale as usize;
    for _ in 0..n_random { deltas.push(Delta::Random); }
    let mut k = 0usize;
    for (di, d) in deltas.iter().enumerate() {
        let pats = choice_patterns(&mut rng);
        // every directed seed pattern meets all-0, all-1 and one rotating pattern; random seeds rotate over all patterns
        let picks: Vec<usize> = if di < 3 || thorough && di < 20 { vec![0, 1, 2 + k % (pats.len() - 2)] } else { vec![k % pats.len()] };
        for pi in picks {
            let sid = gen_sid(&mut rng, k);
            let mut sd = if k % 4 == 3 { match pipeline_seeds(&mut rng, &sid) { Some(s) => { rep.hist("seeds:pipeline(endemic-ot+pprf)"); s } None => synthetic_seeds(&mut rng) } }
                         else { rep.hist("seeds:synthetic"); synthetic_seeds(&mut rng) };
            let dtag = apply_delta(&mut sd, *d, &mut rng);
            rep.hist(&dtag);
            if k % 3 == 1 && (sd.r.random_choices.iter().all(|d| (*d as usize) < SOFT_SPOKEN_Q)) { let kt = special_keys(&mut sd, k / 3, &mut rng); rep.hist(kt); }
            rep.hist(&format!("sid-len:{}", sid.len()));
            let c = Case { sid, sd, choices: pats[pi].1, tape: gen_tape(&mut rng, k), tag: pats[pi].0.into() };
            honest(drv, rep, "honest", &c, true);
            k += 1;
        }
    }
    // a value ON THE WIRE that is zero: with the choice vector and padding equal to the XOR of one tree's leaf expansions the row
    // u_i of the honest first-round message is all-zero (read off a first run with all-zero choices and tape); also all rows
    // but one non-zero.  An all-zero row is an ordinary honest value.
    for (n, tree) in [0usize, 37, NB - 1].into_iter().enumerate() {
        let sid = gen_sid(&mut rng, n);
        let sd = synthetic_seeds(&mut rng);
        let zero_tape = vec![0u8; PAD + 8];
        let Some(o0) = run_recv(&sid, &sd.s, &[0u8; L_BYTES], &zero_tape) else { continue };
        let row = &o0.r1[tree * L_PRIME_BYTES..(tree + 1) * L_PRIME_BYTES];
        let mut choices = [0u8; L_BYTES]; choices.copy_from_slice(&row[..L_BYTES]);
        let mut tape = zero_tape.clone(); tape[..PAD].copy_from_slice(&row[L_BYTES..]);
        rep.hist("zero-on-the-wire:u-row");
        let c = Case { sid, sd, choices, tape, tag: "choices = XOR of one tree's expansions (u row all-zero)".into() };
        honest(drv, rep, "honest", &c, true);
    }
    // correspondence only: punctured index outside 0..Q (the code has a FIXME about the range); no predicate
    for v in [16u8, 31, 255] {
        let mut sd = synthetic_seeds(&mut rng);
        let i = rng.gen_range(0..NB);
        set_delta(&mut sd, i, v);
        let mut ch = [0u8; L_BYTES]; rng.fill_bytes(&mut ch);
        let c = Case { sid: gen_sid(&mut rng, 0), sd, choices: ch, tape: gen_tape(&mut rng, 2), tag: "delta:out-of-range(correspondence only)".into() };
        honest(drv, rep, "out-of-range-delta", &c, false);
    }
}

// ------------------------------------------------------------------ C04

fn flip(m: &mut [u8], pos: usize) { m[pos / 8] ^= 1 << (pos % 8); }

/// tampered messages against the real sender (each) and the model (one batched `ss verdicts` request)
fn tampered_batch(drv: &mut Driver, rep: &mut Report, stream: &str, c: &Case, honest_r1: &[u8], muts: Vec<(String, Vec<u8>)>) {
    let muts: Vec<(String, Vec<u8>)> = muts.into_iter().filter(|(_, m)| { let noop = m == honest_r1; if noop { rep.hist("mut:skipped-noop"); } !noop }).collect();
    if muts.is_empty() { return; }
    // the honest message goes first: anchor (verdict 1) and cache key for the mutations that leave u unchanged
    let mut all: Vec<String> = vec![hex::encode(honest_r1)];
    all.extend(muts.iter().map(|(_, m)| hex::encode(m)));
    let vreq = format!("ss verdicts {} {} {} {}", hexw(&c.sid), rc_hex(&c.sd), dec_hex(&c.sd), all.join(","));
    let model = drv.ask_with(&vreq, &mut |q| oracle::answer(q));
    if !model.starts_with('1') {
        rep.diverge(Failure { stream: stream.into(), index: 0, request: vec![send_req(&c.sid, &c.sd, honest_r1)], impl_out: "1".into(), model_out: clip(&model), key: "ss:send-model".into(), what: "model does not accept the honest message in a verdict batch".into() });
        return;
    }
    let mv: Vec<char> = model.chars().skip(1).collect();
    for (n, (name, m)) in muts.iter().enumerate() {
        let sreq = send_req(&c.sid, &c.sd, m);
        let idx = rep.case(stream, Some(&sreq));
        rep.hist(&format!("mut:{name}"));
        let got = run_send(&c.sid, &c.sd.r, m);
        let got_s = send_str(&got);
        if !matches!(got, Some(Err(()))) {
            rep.pred_fail(Failure { stream: stream.into(), index: idx, request: vec![sreq.clone()], impl_out: clip(&got_s), model_out: "ban".into(), key: format!("ss:tamper-accepted:{name}"), what: format!("a first-round message altered in transit ({name}) does not make the sender abort with AbortProtocolAndBanReceiver") });
        }
        let impl_v = match got { Some(Ok(_)) => '1', Some(Err(())) => '0', None => 'p' };
        if mv.get(n) != Some(&impl_v) {
            rep.diverge(Failure { stream: stream.into(), index: idx, request: vec![sreq], impl_out: impl_v.to_string(), model_out: mv.get(n).map(|c| c.to_string()).unwrap_or(clip(&model)), key: "ss:send-model".into(), what: format!("Lean model senderVerdict and SoftSpokenOTSender::process disagree (tamper {name})") });
        }
    }
}

/// single-bit flips at the listed positions: real sender on each, model verdicts in one batched `ss flips` request
fn flips(drv: &mut Driver, rep: &mut Report, stream: &str, c: &Case, r1: &[u8], items: &str, positions: &[usize]) {
    let req = format!("ss flips {} {} {} {} {}", hexw(&c.sid), rc_hex(&c.sd), dec_hex(&c.sd), hex::encode(r1), items);
    // the real sender runs on worker threads while the model driver answers the batched request
    let workers = std::thread::available_parallelism().map(|n| n.get()).unwrap_or(1).saturating_sub(1).clamp(1, 4);
    let chunk = (positions.len() + workers - 1) / workers.max(1);
    let (model, impl_v): (String, Vec<char>) = std::thread::scope(|sc| {
        let handles: Vec<_> = positions.chunks(chunk.max(1)).map(|ps| {
            let (sid, r, r1) = (&c.sid, &c.sd.r, r1);
            sc.spawn(move || ps.iter().map(|&pos| {
                let mut m = r1.to_vec(); flip(&mut m, pos);
                match run_send(sid, r, &m) { Some(Ok(_)) => '1', Some(Err(())) => '0', None => 'p' }
            }).collect::<Vec<char>>())
        }).collect();
        let model = drv.ask_with(&req, &mut |q| oracle::answer(q));
        let mut v = vec![];
        for hnd in handles { v.extend(hnd.join().expect("worker")); }
        (model, v)
    });
    let mv: Vec<char> = model.chars().collect();
    if mv.len() != positions.len() {
        rep.diverge(Failure { stream: stream.into(), index: 0, request: vec![req.clone()], impl_out: format!("{} positions", positions.len()), model_out: clip(&model), key: "ss:flips-model".into(), what: "model answered a different number of verdicts".into() });
        return;
    }
    for (n, &pos) in positions.iter().enumerate() {
        let field = if pos < U_BYTES * 8 { "u" } else if pos < (U_BYTES + S_BYTES) * 8 { "x" } else { "t" };
        let idx = rep.case(stream, Some(&format!("{}#{pos}", &c.tag)));
        rep.hist(&format!("mut:bitflip-{field}"));
        let one = || format!("ss flips {} {} {} {} {:x}", hexw(&c.sid), rc_hex(&c.sd), dec_hex(&c.sd), hex::encode(r1), pos);
        if impl_v[n] != '0' {
            rep.pred_fail(Failure { stream: stream.into(), index: idx, request: vec![one()], impl_out: (if impl_v[n] == '1' { "accepted" } else { "panic" }).into(), model_out: "ban".into(), key: format!("ss:tamper-accepted:bitflip-{field}"), what: format!("flipping bit {pos} (field {field}) of the first-round message does not make the sender abort") });
        }
        if impl_v[n] != mv[n] {
            rep.diverge(Failure { stream: stream.into(), index: idx, request: vec![one()], impl_out: impl_v[n].to_string(), model_out: mv[n].to_string(), key: "ss:flips-model".into(), what: format!("model and implementation verdicts differ for the flip of bit {pos}") });
        }
    }
}

fn fresh_case(rng: &mut (impl RngCore + rand::CryptoRng), k: usize, d: Delta, tag: &str) -> Case {
    let sid = gen_sid(rng, k);
    let mut sd = if k % 3 == 2 { pipeline_seeds(rng, &sid).unwrap_or_else(|| synthetic_seeds(rng)) } else { synthetic_seeds(rng) };
    apply_delta(&mut sd, d, rng);
    let mut ch = [0u8; L_BYTES]; rng.fill_bytes(&mut ch);
    Case { sid, sd, choices: ch, tape: gen_tape(rng, 2 + k), tag: tag.into() }
}

fn field_mutations(rng: &mut impl RngCore, r1: &[u8]) -> Vec<(String, Vec<u8>)> {
    let mut v: Vec<(String, Vec<u8>)> = vec![];
    let xo = U_BYTES; let to = U_BYTES + S_BYTES;
    let u = |i: usize| i * L_PRIME_BYTES..(i + 1) * L_PRIME_BYTES;
    let t = |i: usize| to + i * S_BYTES..to + (i + 1) * S_BYTES;
    for w in [2usize, 3, 8, 64] {                                   // multi-bit flips anywhere
        let mut m = r1.to_vec();
        let mut ps: Vec<usize> = (0..R1_BYTES * 8).collect(); ps.shuffle(rng);
        for &p in &ps[..w] { flip(&mut m, p); }
        v.push((format!("multibit-{w}"), m));
    }
    for (name, range) in [("u-row", u(rng.gen_range(0..NB))), ("x", xo..to), ("t-row", t(rng.gen_range(0..LAMBDA_C)))] {
        let mut m = r1.to_vec(); rng.fill_bytes(&mut m[range.clone()]); v.push((format!("overwrite-random:{name}"), m));
        let mut m = r1.to_vec(); m[range.clone()].iter_mut().for_each(|b| *b = 0); v.push((format!("overwrite-zero:{name}"), m));
        let mut m = r1.to_vec(); m[range].iter_mut().for_each(|b| *b = !*b); v.push((format!("complement:{name}"), m));
    }
    { let mut m = r1.to_vec(); let b = rng.gen_range(0..R1_BYTES); m[b] = m[b].wrapping_add(1 + rng.gen_range(0..255u8)); v.push(("overwrite-byte".into(), m)); }
    { let (i, j) = (rng.gen_range(0..NB), rng.gen_range(0..NB)); let mut m = r1.to_vec();
      let a = r1[u(i)].to_vec(); let b = r1[u(j)].to_vec(); m[u(i)].copy_from_slice(&b); m[u(j)].copy_from_slice(&a); v.push(("swap:u-rows".into(), m)); }
    { let (i, j) = (rng.gen_range(0..LAMBDA_C), rng.gen_range(0..LAMBDA_C)); let mut m = r1.to_vec();
      let a = r1[t(i)].to_vec(); let b = r1[t(j)].to_vec(); m[t(i)].copy_from_slice(&b); m[t(j)].copy_from_slice(&a); v.push(("swap:t-rows".into(), m)); }
    { let i = rng.gen_range(0..LAMBDA_C); let mut m = r1.to_vec();
      let a = r1[xo..to].to_vec(); let b = r1[t(i)].to_vec(); m[xo..to].copy_from_slice(&b); m[t(i)].copy_from_slice(&a); v.push(("swap:x-with-t-row".into(), m)); }
    { let mut m = r1.to_vec(); m[to..].rotate_left(S_BYTES); v.push(("rotate:t-rows".into(), m)); }
    { let mut m = r1.to_vec(); m[..U_BYTES].rotate_left(L_PRIME_BYTES); v.push(("rotate:u-rows".into(), m)); }
    { let mut m = r1.to_vec(); m[..U_BYTES].rotate_left(1); v.push(("shift:u-by-one-byte".into(), m)); }
    v
}

fn splices(a: &[u8], b: &[u8], what: &str, whole: bool) -> Vec<(String, Vec<u8>)> {
    let xo = U_BYTES; let to = U_BYTES + S_BYTES;
    let mut v = vec![];
    for (name, r) in [("u", 0..xo), ("x", xo..to), ("t", to..R1_BYTES), ("u+x", 0..to), ("x+t", xo..R1_BYTES)] {
        let mut m = a.to_vec(); m[r.clone()].copy_from_slice(&b[r]); v.push((format!("splice-{what}:{name}"), m));
    }
    { let mut m = a.to_vec(); m[..L_PRIME_BYTES].copy_from_slice(&b[..L_PRIME_BYTES]); v.push((format!("splice-{what}:one-u-row"), m)); }
    if whole { v.push((format!("replay-{what}:whole-message"), b.to_vec())); }
    v
}

fn tamper_stream(o: &Opts, drv: &mut Driver, rep: &mut Report) {
    let mut rng = case_rng(o.seed, "c04-tamper");
    let thorough = o.tier == "thorough";
    // base message; nabla != 0 (a flip of x is invisible to ANY verifier when all punctured indices are 0)
    let bases = if thorough { 3 } else { 1 } * o.scale as usize;
    for k in 0..bases {
        let c = fresh_case(&mut rng, k, if k % 2 == 0 { Delta::Random } else { Delta::AsGenerated }, &format!("base{k}"));
        if nabla_is_zero(&c.sd) { continue; }
        let Some((r1, _)) = honest(drv, rep, "tamper-base", &c, true) else { continue };
        // ---- single-bit flips
        if thorough && k == 0 {
            let total = R1_BYTES * 8;
            let shard = 2048;
            let mut a = 0;
            while a < total {
                let b = (a + shard).min(total);
                let ps: Vec<usize> = (a..b).collect();
                flips(drv, rep, "bitflip-exhaustive", &c, &r1, &format!("{a:x}-{b:x}"), &ps);
                a = b;
            }
            rep.exhaustive.push(format!("every single-bit flip of the {total}-bit first-round message of one honest run (fields u, x, t)"));
        } else {
            // spread over the three fields: u (40960 bits), x (all 128 bits), t (32768 bits)
            let mut ps: Vec<usize> = vec![];
            for _ in 0..400 { ps.push(rng.gen_range(0..U_BYTES * 8)); }
            for p in 0..S_BYTES * 8 { ps.push(U_BYTES * 8 + p); }
            for _ in 0..300 { ps.push((U_BYTES + S_BYTES) * 8 + rng.gen_range(0..LAMBDA_C * S_BYTES * 8)); }
            for p in [0, U_BYTES * 8 - 1, (U_BYTES + S_BYTES) * 8, R1_BYTES * 8 - 1] { ps.push(p); }
            ps.sort(); ps.dedup();
            let items: Vec<String> = ps.iter().map(|p| format!("{p:x}")).collect();
            flips(drv, rep, "bitflip", &c, &r1, &items.join(","), &ps);
            rep.exhaustive.push("every single-bit flip of the field x of one honest message".into());
        }
        // ---- the model's own tamper operators (used by the theorems) do what the byte-level alterations do
        for n in 0..(if thorough { 48 } else { 12 }) {
            let (req, want) = match n % 3 {
                0 => { let pos = if n < 6 { [0, 7, U_BYTES * 8 - 1, U_BYTES * 8, (U_BYTES + S_BYTES) * 8, R1_BYTES * 8 - 1][n] } else { rng.gen_range(0..R1_BYTES * 8) };
                       let mut m = r1.clone(); flip(&mut m, pos); (format!("ss tamper flip {} {:x}", hex::encode(&r1), pos), m) }
                1 => { let (i, j) = (rng.gen_range(0..NB), rng.gen_range(0..NB)); let mut m = r1.clone();
                       for b in 0..L_PRIME_BYTES { m.swap(i * L_PRIME_BYTES + b, j * L_PRIME_BYTES + b); }
                       if i == j { m = r1.clone(); }
                       (format!("ss tamper swapu {} {:x} {:x}", hex::encode(&r1), i, j), m) }
                _ => { let (i, j) = (rng.gen_range(0..LAMBDA_C), rng.gen_range(0..LAMBDA_C)); let mut m = r1.clone(); let to = U_BYTES + S_BYTES;
                       for b in 0..S_BYTES { m.swap(to + i * S_BYTES + b, to + j * S_BYTES + b); }
                       if i == j { m = r1.clone(); }
                       (format!("ss tamper swapt {} {:x} {:x}", hex::encode(&r1), i, j), m) }
            };
            let idx = rep.case("tamper-operators", Some(&req));
            let model = drv.ask(&req);
            if model != hex::encode(&want) {
                rep.diverge(Failure { stream: "tamper-operators".into(), index: idx, request: vec![req], impl_out: clip(&hex::encode(&want)), model_out: clip(&model), key: "ss:tamper-op-model".into(), what: "the model's tamper operator differs from the byte-level alteration".into() });
            }
        }
        // ---- multi-bit, overwrites, swaps
        let reps = if thorough { 6 } else { 1 };
        for _ in 0..reps {
            let muts = field_mutations(&mut rng, &r1);
            tampered_batch(drv, rep, "field-mutation", &c, &r1, muts);
        }
        // ---- splices / replays from another session id, another seed set, another choice vector, another tape
        let mut other_sid = c.sid.clone(); if other_sid.is_empty() { other_sid.push(0) } else { let p = rng.gen_range(0..other_sid.len() * 8); flip(&mut other_sid, p); }
        let mut ch2 = c.choices; let p = rng.gen_range(0..L); ch2[p / 8] ^= 1 << (p % 8);
        let mut tape2 = c.tape.clone(); tape2[rng.gen_range(0..PAD)] ^= 0x10;
        let sd2 = { let mut s = synthetic_seeds(&mut rng); for i in 0..NB { let d = c.sd.r.random_choices[i]; set_delta(&mut s, i, d); } s };
        let variants: Vec<(&str, Option<RecvOut>, bool)> = vec![
            ("other-session", run_recv(&other_sid, &c.sd.s, &c.choices, &c.tape), true),
            ("other-seed-set", run_recv(&c.sid, &sd2.s, &c.choices, &c.tape), true),
            ("other-choice-vector", run_recv(&c.sid, &c.sd.s, &ch2, &c.tape), false),
            ("other-tape", run_recv(&c.sid, &c.sd.s, &c.choices, &tape2), false),
        ];
        let mut muts = vec![];
        for (what, out, whole) in variants {
            let Some(out) = out else { continue };
            muts.extend(splices(&r1, &out.r1, what, whole));
        }
        tampered_batch(drv, rep, "splice", &c, &r1, muts);
    }
    // ---- excluded point, directed: all punctured indices 0 => x is never read; a flip of x is accepted by any
    //      verifier of this protocol and the outputs are the honest ones.  Recorded, compared with the model, not a failure.
    let c = fresh_case(&mut rng, 0, Delta::All(0), "excluded:all-delta-0");
    if let Some((r1, Some(hon))) = honest(drv, rep, "tamper-excluded-point", &c, true) {
        let mut m = r1.clone(); flip(&mut m, U_BYTES * 8 + rng.gen_range(0..S_BYTES * 8));
        let sreq = send_req(&c.sid, &c.sd, &m);
        let idx = rep.case("tamper-excluded-point", Some(&sreq));
        rep.hist("excluded-point:all-delta-0 x-flip (x unused when nabla=0)");
        let got = run_send(&c.sid, &c.sd.r, &m);
        let model = drv.ask_with(&sreq, &mut |q| oracle::answer(q));
        let got_s = send_str(&got);
        if got_s != model { rep.diverge(Failure { stream: "tamper-excluded-point".into(), index: idx, request: vec![sreq.clone()], impl_out: got_s, model_out: model, key: "ss:send-model".into(), what: "model/implementation differ at the excluded point".into() }); }
        if let Some(Ok(so)) = got {
            if bytemuck::bytes_of(&*so) != bytemuck::bytes_of(&*hon) {
                rep.pred_fail(Failure { stream: "tamper-excluded-point".into(), index: idx, request: vec![sreq], impl_out: "different outputs".into(), model_out: "honest outputs".into(), key: "ss:excluded-point-outputs".into(), what: "x-flip accepted at nabla=0 but the sender's outputs changed".into() });
            }
        }
    }
}

// ---- the calibrated adversarial receiver

struct Dev { block: usize, e: [u8; L_PRIME_BYTES], guess: u8 }

fn adv_req(c: &Case, devs: &[Dev]) -> String {
    let items: Vec<String> = devs.iter().map(|d| format!("{:x}:{}:{:x}", d.block, hex::encode(d.e), d.guess)).collect();
    format!("ss adv {} {} {} {} {}", hexw(&c.sid), enc_hex(&c.sd), hex::encode(c.choices), hexw(&c.tape), if items.is_empty() { "-".into() } else { items.join(",") })
}

fn gen_e(rng: &mut impl RngCore, kind: usize) -> ([u8; L_PRIME_BYTES], &'static str) {
    let mut e = [0u8; L_PRIME_BYTES];
    let setbit = |e: &mut [u8; L_PRIME_BYTES], p: usize| e[p / 8] |= 1 << (p % 8);
    match kind % 7 {
        0 => { setbit(&mut e, rng.gen_range(0..L)); (e, "weight-1") }
        1 => { setbit(&mut e, rng.gen_range(0..L)); setbit(&mut e, rng.gen_range(0..L)); (e, "weight-2") }
        2 => { for _ in 0..8 { setbit(&mut e, rng.gen_range(0..L_PRIME)); } (e, "weight-8") }
        3 => { rng.fill_bytes(&mut e); (e, "weight-random") }
        4 => { setbit(&mut e, L + rng.gen_range(0..S)); (e, "pad-bits-only") }
        5 => { e = [0xff; L_PRIME_BYTES]; (e, "all-ones") }
        _ => { setbit(&mut e, rng.gen_range(0..S)); setbit(&mut e, S + rng.gen_range(0..S)); (e, "two-segments") }
    }
}

struct AdvCase { devs: Vec<Dev>, tag: String }

/// all deviation sets of one base case: messages built by the Lean `advReceiver` (one batched `ss adv`), each
/// transported into the real sender; model verdicts in one batched `ss verdicts`; for up to `full` accepted
/// messages the complete sender outputs are also compared with the model (`ss send`)
fn adversaries(drv: &mut Driver, rep: &mut Report, c: &Case, hon_r1: &[u8], hon: &SenderExtendedOutput, cases: &[AdvCase], mut full: usize) {
    if cases.is_empty() { return; }
    let sets: Vec<String> = cases.iter().map(|a| { let r = adv_req(c, &a.devs); r.rsplit(' ').next().unwrap().to_string() }).collect();
    let breq = format!("{} {}", adv_req(c, &[]).rsplit_once(' ').unwrap().0, sets.join(";"));
    let ans = drv.ask_with(&breq, &mut |q| oracle::answer(q));
    let msgs: Vec<Vec<u8>> = ans.split(',').filter_map(|h| hex::decode(h).ok()).filter(|m| m.len() == R1_BYTES).collect();
    if msgs.len() != cases.len() {
        rep.diverge(Failure { stream: "adversary".into(), index: 0, request: vec![breq], impl_out: format!("{} deviation sets", cases.len()), model_out: clip(&ans), key: "ss:adv-model".into(), what: "advReceiver did not return one message per deviation set".into() });
        return;
    }
    let vreq = format!("ss verdicts {} {} {} {}", hexw(&c.sid), rc_hex(&c.sd), dec_hex(&c.sd), msgs.iter().map(hex::encode).collect::<Vec<_>>().join(","));
    let model_v: Vec<char> = drv.ask_with(&vreq, &mut |q| oracle::answer(q)).chars().collect();
    for (n, (a, m)) in cases.iter().zip(&msgs).enumerate() {
        let (devs, tag) = (&a.devs, &a.tag);
        let areq = adv_req(c, devs);
        let idx = rep.case("adversary", Some(&areq));
        rep.hist(&format!("adv:{tag}"));
        let deviating: Vec<&Dev> = devs.iter().filter(|d| d.e != [0u8; L_PRIME_BYTES]).collect();
        if deviating.is_empty() && m != hon_r1 {
            rep.diverge(Failure { stream: "adversary".into(), index: idx, request: vec![areq.clone()], impl_out: "honest message".into(), model_out: "different".into(), key: "ss:adv-model".into(), what: "advReceiver without deviation differs from the honest message of the implementation".into() });
        }
        // the u-blocks of the deviating message are the honest ones xor e (the adversary really deviates as claimed)
        for d in devs { if (0..L_PRIME_BYTES).any(|b| m[d.block * L_PRIME_BYTES + b] != hon_r1[d.block * L_PRIME_BYTES + b] ^ d.e[b]) {
            rep.diverge(Failure { stream: "adversary".into(), index: idx, request: vec![areq.clone()], impl_out: "u_i xor e_i".into(), model_out: "different".into(), key: "ss:adv-model".into(), what: "advReceiver's u block is not the honest block xor the deviation".into() }); } }
        let expect_accept = deviating.iter().all(|d| d.guess == c.sd.r.random_choices[d.block]);
        let sreq = send_req(&c.sid, &c.sd, m);
        let got = run_send(&c.sid, &c.sd.r, m);
        let got_s = send_str(&got);
        let impl_v = match got { Some(Ok(_)) => '1', Some(Err(())) => '0', None => 'p' };
        if model_v.get(n) != Some(&impl_v) {
            rep.diverge(Failure { stream: "adversary".into(), index: idx, request: vec![areq.clone(), sreq.clone()], impl_out: impl_v.to_string(), model_out: model_v.get(n).map(|c| c.to_string()).unwrap_or_default(), key: "ss:send-model".into(), what: format!("Lean model and SoftSpokenOTSender::process verdicts disagree (adversarial message, {tag})") });
        }
        let accepted = impl_v == '1';
        if accepted && full > 0 {
            full -= 1;
            rep.hist("adv:accepted-outputs-compared-with-model");
            let model = drv.ask_with(&sreq, &mut |q| oracle::answer(q));
            if got_s != model {
                rep.diverge(Failure { stream: "adversary".into(), index: idx, request: vec![areq.clone(), sreq.clone()], impl_out: got_s.clone(), model_out: model, key: "ss:send-model".into(), what: format!("Lean model senderProcess and SoftSpokenOTSender::process outputs disagree (adversarial message, {tag})") });
            }
        }
        rep.hist(if accepted { "adv-verdict:accepted" } else { "adv-verdict:ban" });
        if accepted != expect_accept || got.is_none() {
            rep.pred_fail(Failure { stream: "adversary".into(), index: idx, request: vec![areq.clone(), sreq.clone()], impl_out: clip(&got_s), model_out: (if expect_accept { "accepted" } else { "ban" }).into(), key: format!("ss:selective-failure:{}", if expect_accept { "right-guess-rejected" } else { "wrong-guess-accepted" }), what: format!("re-derived deviating message ({tag}) must be accepted iff every guess of the sender's index is right") });
        }
        if let Some(Ok(so)) = &got {
            if deviating.iter().all(|d| d.guess == 0) {
                rep.hist("adv:accepted-with-all-guesses-0");
                if bytemuck::bytes_of(&**so) != bytemuck::bytes_of(hon) {
                    rep.pred_fail(Failure { stream: "adversary".into(), index: idx, request: vec![areq, sreq], impl_out: "different outputs".into(), model_out: "honest outputs".into(), key: "ss:selective-failure:guess-0-outputs".into(), what: format!("deviating message accepted with all guesses 0 ({tag}) but the sender's outputs are not those of the honest message") });
                }
            }
        }
    }
}

fn adversary_stream(o: &Opts, drv: &mut Driver, rep: &mut Report) {
    let mut rng = case_rng(o.seed, "c04-adv");
    let thorough = o.tier == "thorough";
    let bases = if thorough { 2 } else { 1 } * o.scale as usize;
    for k in 0..bases {
        // seeds with a mixture of punctured indices, zeros included (so that "guess 0" can be right)
        let mut c = fresh_case(&mut rng, k, Delta::Random, "adv-base");
        for i in 0..NB { if i % 3 == 0 { set_delta(&mut c.sd, i, 0); } }
        if k % 2 == 1 { for i in 0..NB { if i % 5 == 1 { set_delta(&mut c.sd, i, 15); } } }
        let Some((r1, Some(hon))) = honest(drv, rep, "adversary-base", &c, true) else { continue };
        let mut cases: Vec<AdvCase> = vec![AdvCase { devs: vec![], tag: "no-deviation".into() }];
        let blocks: Vec<usize> = if thorough { (0..NB).collect() } else { vec![0, 1, 62, 63, rng.gen_range(2..62), 3 * rng.gen_range(1..20)] };
        let mut kind = k;
        for &b in &blocks {
            let delta = c.sd.r.random_choices[b];
            let wrongs = [delta ^ 1, delta ^ 8, (delta + 1 + rng.gen_range(0..14)) % 16];
            let mut guesses: Vec<(u8, &str)> = vec![(delta, "guess=delta"), (wrongs[kind % 3], "guess!=delta")];
            if delta != 0 { guesses.push((0, "guess=0(wrong)")); } else { guesses[0].1 = "guess=0=delta"; }
            for (g, gtag) in guesses {
                let (e, etag) = gen_e(&mut rng, kind); kind += 1;
                cases.push(AdvCase { devs: vec![Dev { block: b, e, guess: g }], tag: format!("1-block:{etag}:{gtag}") });
            }
        }
        // zero deviation with a wrong guess: nothing deviates, accepted
        { let b = rng.gen_range(0..NB); let g = c.sd.r.random_choices[b] ^ 3;
          cases.push(AdvCase { devs: vec![Dev { block: b, e: [0; L_PRIME_BYTES], guess: g }], tag: "zero-deviation:wrong-guess".into() }); }
        // several blocks: all right / exactly one wrong / all guess 0 on blocks whose index is 0
        let multi = if thorough { 8 } else { 3 };
        for r in 0..multi {
            let mut bs: Vec<usize> = (0..NB).collect(); bs.shuffle(&mut rng);
            let n = [2usize, 3, 8, 64][r % 4];
            let mk = |rng: &mut rand_chacha::ChaCha20Rng, bs: &[usize], wrong: Option<usize>, kind: &mut usize| -> Vec<Dev> {
                bs.iter().enumerate().map(|(q, &b)| { let (e, _) = gen_e(rng, *kind); *kind += 1;
                    let d = c.sd.r.random_choices[b]; Dev { block: b, e, guess: if wrong == Some(q) { d ^ (1 << (q % 4)) } else { d } } }).collect() };
            cases.push(AdvCase { devs: mk(&mut rng, &bs[..n], None, &mut kind), tag: format!("{n}-blocks:all-right") });
            let w = rng.gen_range(0..n);
            cases.push(AdvCase { devs: mk(&mut rng, &bs[..n], Some(w), &mut kind), tag: format!("{n}-blocks:one-wrong") });
            let zeros: Vec<usize> = (0..NB).filter(|&i| c.sd.r.random_choices[i] == 0).take(n).collect();
            cases.push(AdvCase { devs: mk(&mut rng, &zeros, None, &mut kind), tag: format!("{}-blocks:all-guess-0-right", zeros.len()) });
        }
        adversaries(drv, rep, &c, &r1, &hon, &cases, if thorough { 16 } else { 5 });
    }
}

pub fn run_c04(o: &Opts, drv: &mut Driver, rep: &mut Report) {
    // honest messages are always accepted (also checked by every base case below)
    let mut rng = case_rng(o.seed, "c04-honest");
    let n = (if o.tier == "thorough" { 16 } else { 4 }) * o.scale as usize;
    for k in 0..n {
        let d = [Delta::Random, Delta::AsGenerated, Delta::All(15), Delta::Ramp][k % 4];
        let mut c = fresh_case(&mut rng, k, d, "honest");
        let pats = choice_patterns(&mut rng);
        c.choices = pats[k % pats.len()].1; c.tag = pats[k % pats.len()].0.into();
        honest(drv, rep, "honest", &c, true);
    }
    // ---- "replayed from another session" through the OTHER public entry point that reaches the sender's check: the VOLE sender
    //      (crates/sl-oblivious/src/rvole.rs) takes its session id as a byte string of any length
    for k in 0..(if o.tier == "thorough" { 6 } else { 2 }) {
        let mut c = fresh_case(&mut rng, k, Delta::Random, "rvole-entry");
        c.sid = { let mut s: Vec<u8> = (0..32).map(|_| rng.gen()).collect(); s[31] = 0; s };
        let Some(o1) = run_recv(&c.sid, &c.sd.s, &c.choices, &c.tape) else { continue };
        let a = [k256::Scalar::from(3u64 + k as u64), k256::Scalar::from(5u64)];
        let via_rvole = |sid: &[u8]| -> Option<bool> { catch_unwind(AssertUnwindSafe(|| {
            let m: Box<Round1Output> = Box::new(bytemuck::pod_read_unaligned(&o1.r1));
            let mut out = Box::new(sl_oblivious::rvole::RVOLEOutput::default());
            sl_oblivious::rvole::RVOLESender::process(sid, &c.sd.r, &a, &m, &mut out, &mut rand::thread_rng()).is_ok() })).ok() };
        let req = format!("c04 rvole-entry {}", hexw(&c.sid));
        let idx = rep.case("rvole-entry", Some(&req));
        if via_rvole(&c.sid) != Some(true) { rep.pred_fail(Failure { stream: "rvole-entry".into(), index: idx, request: vec![req.clone()], impl_out: "rejected".into(), model_out: "accepted".into(), key: "ss:rvole-entry:honest-rejected".into(), what: "RVOLESender::process rejects an honest round-one message made under the same 32-byte session id".into() }); }
        for (name, rel) in [("id+01", [&c.sid[..], &[1u8][..]].concat()), ("id+00", [&c.sid[..], &[0u8][..]].concat()), ("id-without-trailing-zero", c.sid[..31].to_vec()), ("id-first-16", c.sid[..16].to_vec()), ("empty", vec![])] {
            rep.hist(&format!("rvole-entry:related-session-id:{name}"));
            if via_rvole(&rel) != Some(false) { rep.pred_fail(Failure { stream: "rvole-entry".into(), index: idx, request: vec![req.clone(), format!("related id {name} = {}", hexw(&rel))], impl_out: "accepted (or panic)".into(), model_out: "AbortProtocolAndBanReceiver".into(), key: format!("ss:replayed-session:{name}"),
                what: format!("a first-round message made for one session id is accepted by RVOLESender::process run under the related id `{name}`") }); }
        }
    }
    let t0 = std::time::Instant::now();
    tamper_stream(o, drv, rep);
    let t1 = std::time::Instant::now();
    adversary_stream(o, drv, rep);
    if std::env::var("SS_TIMING").is_ok() { eprintln!("tamper {:?} adversary {:?}", t1 - t0, t1.elapsed()); }
}

pub fn run(o: &Opts, drv: &mut Driver, rep: &mut Report, prop: &str) {
    if prop == "C03" { run_c03(o, drv, rep) } else { run_c04(o, drv, rep) }
}

// ------------------------------------------------------------------ replay

/// re-runs `ss recv` / `ss send` / `ss adv` / `ss flips` request lines against the real code and the model;
/// a `recv` line followed by a `send` line is also judged by the C03 predicate
pub fn replay(drv: &mut Driver, rep: &mut Report, lines: &[String], _prop: &str) {
    let mut last: Option<([u8; L_BYTES], Box<ReceiverExtendedOutput>)> = None;
    let seeds_from = |rc: &[u8], keys: &[u8]| -> Option<Box<ReceiverOTSeed>> {
        let mut r = Box::new(ReceiverOTSeed::default());
        if rc.len() != NB || keys.len() != std::mem::size_of_val(&r.otp_dec_keys) { return None; }
        r.random_choices.copy_from_slice(rc);
        r.otp_dec_keys = bytemuck::pod_read_unaligned(keys);
        Some(r)
    };
    for l in lines {
        let t: Vec<&str> = l.split(' ').collect();
        if t.len() < 2 || t[0] != "ss" { continue; }
        match (t[1], t.len()) {
            ("recv", 6) => {
                let (Some(sid), Some(keys), Some(ch), Some(tape)) = (unhexw(t[2]), unhexw(t[3]), unhexw(t[4]), unhexw(t[5])) else { continue };
                if keys.len() != std::mem::size_of::<SenderOTSeed>() || ch.len() != L_BYTES { continue; }
                let s: Box<SenderOTSeed> = Box::new(bytemuck::pod_read_unaligned(&keys));
                let mut choices = [0u8; L_BYTES]; choices.copy_from_slice(&ch);
                let idx = rep.case("replay", Some(l));
                let got = run_recv(&sid, &s, &choices, &tape);
                let got_s = match &got { None => "panic".to_string(), Some(o) => format!("{}:{}:{}", hex::encode(&o.r1), hex::encode(bytemuck::bytes_of(&o.ext.v_x)), o.used) };
                let model = drv.ask_with(l, &mut |q| oracle::answer(q));
                if got_s != model { rep.diverge(Failure { stream: "replay".into(), index: idx, request: vec![l.clone()], impl_out: got_s, model_out: model, key: "ss:recv-model".into(), what: "model/implementation differ (receiver)".into() }); }
                last = got.map(|o| (choices, o.ext));
            }
            ("send", 6) => {
                let (Some(sid), Some(rc), Some(keys), Some(m)) = (unhexw(t[2]), unhexw(t[3]), unhexw(t[4]), unhexw(t[5])) else { continue };
                let Some(r) = seeds_from(&rc, &keys) else { continue };
                if m.len() != R1_BYTES { continue; }
                let idx = rep.case("replay", Some(l));
                let got = run_send(&sid, &r, &m);
                let got_s = send_str(&got);
                let model = drv.ask_with(l, &mut |q| oracle::answer(q));
                rep.notes.push(format!("replayed send: implementation verdict = {}", &got_s[..got_s.len().min(5)]));
                if got_s != model { rep.diverge(Failure { stream: "replay".into(), index: idx, request: vec![l.clone()], impl_out: got_s, model_out: model, key: "ss:send-model".into(), what: "model/implementation differ (sender)".into() }); }
                if let (Some(Ok(so)), Some((ch, ext))) = (&got, &last) {
                    let nz = rc.iter().all(|d| d & 15 == 0);
                    for key in c03_predicate(ch, ext, so, nz) {
                        rep.pred_fail(Failure { stream: "replay".into(), index: idx, request: vec![l.clone()], impl_out: key.into(), model_out: "C03 conclusion".into(), key: key.into(), what: "C03 conclusion false on the implementation's outputs".into() });
                    }
                }
            }
            ("flips", 7) => {
                let (Some(sid), Some(rc), Some(keys), Some(m)) = (unhexw(t[2]), unhexw(t[3]), unhexw(t[4]), unhexw(t[5])) else { continue };
                let Some(r) = seeds_from(&rc, &keys) else { continue };
                let Ok(pos) = usize::from_str_radix(t[6], 16) else { continue };
                if m.len() != R1_BYTES || pos >= R1_BYTES * 8 { continue; }
                let idx = rep.case("replay", Some(l));
                let mut m2 = m.clone(); flip(&mut m2, pos);
                let got = run_send(&sid, &r, &m2);
                let v = match got { Some(Ok(_)) => "1", Some(Err(())) => "0", None => "p" };
                let model = drv.ask_with(l, &mut |q| oracle::answer(q));
                rep.notes.push(format!("replayed flip of bit {pos}: implementation verdict = {v}"));
                if v != model { rep.diverge(Failure { stream: "replay".into(), index: idx, request: vec![l.clone()], impl_out: v.into(), model_out: model, key: "ss:flips-model".into(), what: "model/implementation verdicts differ".into() }); }
                if v != "0" { rep.pred_fail(Failure { stream: "replay".into(), index: idx, request: vec![l.clone()], impl_out: v.into(), model_out: "0".into(), key: "ss:tamper-accepted:bitflip".into(), what: "bit flip not rejected".into() }); }
            }
            ("adv", 7) => {
                let idx = rep.case("replay", Some(l));
                let model = drv.ask_with(l, &mut |q| oracle::answer(q));
                rep.notes.push(format!("replayed adv #{idx}: model built a message of {} hex chars (the following send line carries it)", model.len()));
            }
            _ => {}
        }
    }
}
